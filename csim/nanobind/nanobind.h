// Minimal nanobind-compatible binding shim: just enough of the nanobind API for
// phonopy's unmodified c/_phonopy.cpp (nanobind itself cannot be installed in
// the sealed sandbox).  ndarray<> accepts any object exporting the buffer
// protocol, exactly like an unconstrained nb::ndarray<>: no dtype / layout
// conversion, data() is the address of the first element.
// When linked with the simulator (csim/simgomp.c) every ndarray / string
// argument is registered with its exact byte extent and the bounds monitor is
// armed only around the call of the bound function itself.
#pragma once
#define PY_SSIZE_T_CLEAN
#include <Python.h>
#include <cstdint>
#include <cstring>
#include <tuple>
#include <utility>
#include <vector>
#include <stdexcept>
#include <string>

extern "C" {
void simhook_call_begin(const char *name) __attribute__((weak));
void simhook_register_buffer(void *p, size_t nbytes, int writable) __attribute__((weak));
void simhook_call_end(void) __attribute__((weak));
void simhook_arm(void) __attribute__((weak));
}

namespace nanobind {
struct cast_error : std::runtime_error { using std::runtime_error::runtime_error; };

template <typename... Ts> class ndarray {
  public:
    ndarray() : data_(nullptr), ndim_(0) {}
    void *data() const { return data_; }
    size_t shape(size_t i) const { return i < (size_t)ndim_ ? (size_t)shape_[i] : 0; }
    size_t ndim() const { return ndim_; }
    void *data_; int ndim_; Py_ssize_t shape_[8]; Py_ssize_t nbytes_; int readonly_;
};

namespace detail {
struct call_ctx { std::vector<Py_buffer> views; ~call_ctx(){ for (auto &v: views) PyBuffer_Release(&v);} };

template <typename T> struct caster;
template <typename... Ts> struct caster<ndarray<Ts...>> {
    static ndarray<Ts...> from(PyObject *o, call_ctx &ctx) {
        Py_buffer view;
        if (PyObject_GetBuffer(o, &view, PyBUF_STRIDES | PyBUF_FORMAT) != 0) {
            PyErr_Clear(); throw cast_error("ndarray argument expected");
        }
        ctx.views.push_back(view);
        ndarray<Ts...> a; a.data_ = view.buf; a.ndim_ = view.ndim > 8 ? 8 : view.ndim;
        for (int i = 0; i < a.ndim_; i++) a.shape_[i] = view.shape[i];
        a.nbytes_ = view.len; a.readonly_ = view.readonly;
        if (simhook_register_buffer) {
            // exact byte extent of the (possibly strided) buffer
            char *lo = (char *)view.buf, *hi = (char *)view.buf + view.itemsize;
            bool empty = false;
            for (int i = 0; i < view.ndim; i++) {
                if (view.shape[i] == 0) empty = true;
                Py_ssize_t st = view.strides ? view.strides[i] : 0;
                if (!view.strides) { st = view.itemsize; for (int j = i + 1; j < view.ndim; j++) st *= view.shape[j]; }
                Py_ssize_t span = (view.shape[i] - 1) * st;
                if (span > 0) hi += span; else lo += span;
            }
            simhook_register_buffer(lo, empty ? 0 : (size_t)(hi - lo), !view.readonly);
        }
        return a;
    }
};
template <> struct caster<int64_t> {
    static int64_t from(PyObject *o, call_ctx &) {
        if (PyFloat_Check(o)) throw cast_error("int expected, got float");
        PyObject *idx = PyNumber_Index(o);
        if (!idx) { PyErr_Clear(); throw cast_error("int expected"); }
        long long v = PyLong_AsLongLong(idx); Py_DECREF(idx);
        if (v == -1 && PyErr_Occurred()) { PyErr_Clear(); throw cast_error("int overflow"); }
        return (int64_t)v;
    }
};
template <> struct caster<int> {
    static int from(PyObject *o, call_ctx &c) {
        int64_t v = caster<int64_t>::from(o, c);
        if (v < INT32_MIN || v > INT32_MAX) throw cast_error("int overflow");
        return (int)v;
    }
};
template <> struct caster<double> {
    static double from(PyObject *o, call_ctx &) {
        double v = PyFloat_AsDouble(o);
        if (v == -1.0 && PyErr_Occurred()) { PyErr_Clear(); throw cast_error("float expected"); }
        return v;
    }
};
template <> struct caster<const char *> {
    static const char *from(PyObject *o, call_ctx &) {
        if (!PyUnicode_Check(o)) throw cast_error("str expected");
        const char *s = PyUnicode_AsUTF8(o);
        if (!s) { PyErr_Clear(); throw cast_error("str expected"); }
        if (simhook_register_buffer) simhook_register_buffer((void *)s, strlen(s) + 1, 0);
        return s;
    }
};
inline PyObject *to_py(bool v) { return PyBool_FromLong(v); }
inline PyObject *to_py(double v) { return PyFloat_FromDouble(v); }
inline PyObject *to_py(int64_t v) { return PyLong_FromLongLong(v); }
inline PyObject *to_py(int v) { return PyLong_FromLong(v); }

struct fn_record { void *fptr; const char *name; PyMethodDef def; };

template <typename R, typename... Args, size_t... I>
PyObject *invoke(fn_record *rec, PyObject *args, std::index_sequence<I...>) {
    if (!PyTuple_Check(args) || (size_t)PyTuple_GET_SIZE(args) != sizeof...(Args)) {
        PyErr_Format(PyExc_TypeError, "%s(): incompatible function arguments (expected %zu)", rec->name, sizeof...(Args));
        return nullptr;
    }
    call_ctx ctx;
    try {
        if (simhook_call_begin) simhook_call_begin(rec->name);
        // braced init list guarantees left-to-right evaluation
        std::tuple<std::decay_t<Args>...> conv{caster<std::decay_t<Args>>::from(PyTuple_GET_ITEM(args, I), ctx)...};
        auto f = (R(*)(Args...))rec->fptr;
        if (simhook_arm) simhook_arm();
        if constexpr (std::is_void_v<R>) {
            f(std::get<I>(conv)...);
            if (simhook_call_end) simhook_call_end();
            Py_RETURN_NONE;
        } else {
            R r = f(std::get<I>(conv)...);
            if (simhook_call_end) simhook_call_end();
            return to_py(r);
        }
    } catch (cast_error &e) {
        if (simhook_call_end) simhook_call_end();
        PyErr_Format(PyExc_TypeError, "%s(): %s", rec->name, e.what());
        return nullptr;
    }
}
template <typename R, typename... Args>
PyObject *trampoline(PyObject *self, PyObject *args) {
    auto *rec = (fn_record *)PyCapsule_GetPointer(self, nullptr);
    return invoke<R, Args...>(rec, args, std::index_sequence_for<Args...>{});
}
} // namespace detail

class module_ {
  public:
    explicit module_(PyObject *m) : m_(m) {}
    template <typename R, typename... Args> module_ &def(const char *name, R (*f)(Args...)) {
        auto *rec = new detail::fn_record{(void *)f, name, {name, (PyCFunction)detail::trampoline<R, Args...>, METH_VARARGS, nullptr}};
        PyObject *cap = PyCapsule_New(rec, nullptr, nullptr);
        PyObject *func = PyCFunction_New(&rec->def, cap);
        Py_DECREF(cap);
        PyModule_AddObject(m_, name, func);
        return *this;
    }
    PyObject *m_;
};
} // namespace nanobind

#define NB_MODULE(name, var)                                                     \
    static void nb_init_##name(nanobind::module_ &);                             \
    static PyModuleDef nb_moddef_##name = {PyModuleDef_HEAD_INIT, #name, nullptr, -1, nullptr}; \
    extern "C" __attribute__((visibility("default"))) PyObject *PyInit_##name() { \
        PyObject *m = PyModule_Create(&nb_moddef_##name);                        \
        if (!m) return nullptr;                                                   \
        nanobind::module_ mod(m);                                                 \
        nb_init_##name(mod);                                                      \
        return m;                                                                 \
    }                                                                             \
    static void nb_init_##name(nanobind::module_ &var)

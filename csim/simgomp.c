// Deterministic simulated OpenMP runtime for phonopy's compiled kernels.
//
// Replaces libgomp (GOMP_parallel, omp_get_*) and implements the callbacks gcc
// emits under -fsanitize=thread (__tsan_read8, ...), so that
//   * a team of T simulated threads (ucontext coroutines on ONE OS thread) runs
//     each `#pragma omp parallel for` region,
//   * every instrumented memory access inside a region is a yield point at
//     which a seeded scheduler decides who runs next,
//   * every instrumented access inside a kernel call is checked against the
//     set of memory the kernel may legally touch (bounds monitor),
//   * conflicting accesses of two simulated threads are recorded as race
//     candidates (never reported as violations by themselves).
// No decision depends on an address or on a clock: a schedule is a pure
// function of (seed, policy, event counts).
#define _GNU_SOURCE
#include <link.h>
#include <pthread.h>
#include <stdint.h>
#include <stdio.h>
#include <stdlib.h>
#include <string.h>
#include <sys/mman.h>
#include <ucontext.h>
#include <unistd.h>

#define MAXT 64
#define STACK_SZ ((size_t)1 << 20)
#define NOSAN __attribute__((no_sanitize("thread"))) __attribute__((no_sanitize_thread))

enum { POL_RAND = 0, POL_RR = 1, POL_ORDER = 2, POL_PCT = 3, POL_DIRECTED = 4, POL_REPLAY = 5 };

typedef struct { uint64_t s; } rng_t;
static inline uint64_t rng_next(rng_t *r) {  // splitmix64
    uint64_t z = (r->s += 0x9e3779b97f4a7c15ULL);
    z = (z ^ (z >> 30)) * 0xbf58476d1ce4e5b9ULL;
    z = (z ^ (z >> 27)) * 0x94d049bb133111ebULL;
    return z ^ (z >> 31);
}

typedef struct { uint64_t ev; int32_t thr; int32_t kind; } trace_t;  // kind 0 = pre-emption, 1 = pick after completion / start

static struct {
    // configuration
    rng_t rng;
    int team, policy;
    uint64_t p1, p2;  // rand: switch prob p1/p2; rr: every p1 events; pct: p1 change points over p2 estimated events
    uint64_t max_events;
    int record;
    // counters
    uint64_t events, switches, regions, nested_regions, races, checked, oob, empty_chunks, inline_regions;
    int max_team_seen;
    // region state
    int in_region, cur, nthreads;
    int done[MAXT], nest[MAXT];
    int64_t prio[MAXT];
    int64_t low_prio;
    ucontext_t ctx[MAXT], main_ctx;
    char *stacks;  // MAXT contiguous stacks
    void (*fn)(void *);
    void *data;
    uint64_t thread_events[MAXT];
    // pct change points
    uint64_t change[64];
    int nchange, ichange;
    // directed
    uintptr_t dir_pcs[128];
    int ndir;
    // trace
    trace_t *trace;
    size_t ntrace, captrace;
    const trace_t *replay;
    size_t nreplay, ireplay;
    // kernel-call state
    int armed;
    char kernel[64];
    int report_fd;
    int hang;
} S = {.team = 1, .policy = POL_RAND, .p1 = 0, .p2 = 1, .max_events = (uint64_t)1 << 40, .report_fd = -1};

// ---------------------------------------------------------------- legal memory
typedef struct { uintptr_t lo, hi; int writable; } range_t;
#define MAXBUF 64
static range_t bufs[MAXBUF];
static int nbufs;
#define MAXBLK 256
static range_t blks[MAXBLK];
static int nblks;
static range_t image[16];
static int nimage;
static uintptr_t image_base;
static range_t main_stack;
static int init_done;

typedef struct { char kernel[64]; uintptr_t pc_off; int is_write, size; int nearest; int64_t off; uint64_t count; } oob_t;
#define MAXOOB 32
static oob_t oobs[MAXOOB];
static int noobs;

NOSAN static int phdr_cb(struct dl_phdr_info *info, size_t size, void *data) {
    (void)size;
    uintptr_t me = (uintptr_t)data;
    int mine = 0;
    for (int i = 0; i < info->dlpi_phnum; i++) {
        const ElfW(Phdr) *ph = &info->dlpi_phdr[i];
        if (ph->p_type != PT_LOAD) continue;
        uintptr_t lo = info->dlpi_addr + ph->p_vaddr, hi = lo + ph->p_memsz;
        if (me >= lo && me < hi) mine = 1;
    }
    if (!mine) return 0;
    image_base = info->dlpi_addr;
    for (int i = 0; i < info->dlpi_phnum && nimage < 16; i++) {
        const ElfW(Phdr) *ph = &info->dlpi_phdr[i];
        if (ph->p_type != PT_LOAD) continue;
        image[nimage].lo = info->dlpi_addr + ph->p_vaddr;
        image[nimage].hi = image[nimage].lo + ph->p_memsz;
        image[nimage].writable = (ph->p_flags & PF_W) != 0;
        nimage++;
    }
    return 1;
}

NOSAN static void sim_init(void) {
    if (init_done) return;
    init_done = 1;
    dl_iterate_phdr(phdr_cb, (void *)&sim_init);
    pthread_attr_t at;
    if (pthread_getattr_np(pthread_self(), &at) == 0) {
        void *sp; size_t sz;
        pthread_attr_getstack(&at, &sp, &sz);
        main_stack.lo = (uintptr_t)sp; main_stack.hi = (uintptr_t)sp + sz; main_stack.writable = 1;
        pthread_attr_destroy(&at);
    }
    S.stacks = mmap(NULL, STACK_SZ * MAXT, PROT_READ | PROT_WRITE, MAP_PRIVATE | MAP_ANONYMOUS | MAP_NORESERVE, -1, 0);
}

NOSAN uintptr_t sim_image_base(void) { sim_init(); return image_base; }

// ---------------------------------------------------------------- race-candidate shadow (4-byte granules)
typedef struct { uintptr_t key; uint32_t gen; int16_t w; uint64_t r; } shadow_t;
#define SH_BITS 21
static shadow_t *shadow;
static uint32_t shadow_gen = 1, shadow_used;
static uint64_t shadow_overflow;
NOSAN static void shadow_reset(void) {
    if (!shadow) shadow = calloc((size_t)1 << SH_BITS, sizeof(shadow_t));
    shadow_gen++;
    shadow_used = 0;
}
NOSAN static shadow_t *shadow_get(uintptr_t g, int insert) {
    uint64_t h = (g * 0x9e3779b97f4a7c15ULL) >> (64 - SH_BITS);
    for (;;) {
        shadow_t *e = &shadow[h];
        if (e->gen != shadow_gen) {
            if (!insert) return NULL;
            if (shadow_used >= ((uint32_t)1 << (SH_BITS - 1))) { shadow_overflow++; return NULL; }
            e->key = g; e->gen = shadow_gen; e->w = -1; e->r = 0; shadow_used++;
            return e;
        }
        if (e->key == g) return e;
        h = (h + 1) & (((uint64_t)1 << SH_BITS) - 1);
    }
}
#define MAXPC 128
static struct { uintptr_t pc; uint64_t n; int ww; } racepc[MAXPC];
static int nracepc;
NOSAN static void note_race(uintptr_t pc, int ww) {
    S.races++;
    for (int i = 0; i < nracepc; i++) if (racepc[i].pc == pc) { racepc[i].n++; racepc[i].ww |= ww; return; }
    if (nracepc < MAXPC) { racepc[nracepc].pc = pc; racepc[nracepc].n = 1; racepc[nracepc].ww = ww; nracepc++; }
}

// ---------------------------------------------------------------- scheduler
NOSAN static void trace_add(uint64_t ev, int thr, int kind) {
    if (!S.record) return;
    if (S.ntrace == S.captrace) {
        S.captrace = S.captrace ? S.captrace * 2 : 4096;
        S.trace = realloc(S.trace, S.captrace * sizeof(trace_t));
    }
    S.trace[S.ntrace].ev = ev; S.trace[S.ntrace].thr = thr; S.trace[S.ntrace].kind = kind; S.ntrace++;
}
NOSAN static int n_live(void) { int n = 0; for (int i = 0; i < S.nthreads; i++) n += !S.done[i]; return n; }
NOSAN static int pick_random_live(int exclude) {
    int live[MAXT], n = 0;
    for (int i = 0; i < S.nthreads; i++) if (!S.done[i] && i != exclude) live[n++] = i;
    if (!n) return -1;
    return live[rng_next(&S.rng) % (uint64_t)n];
}
NOSAN static int pick_highest_prio(void) {
    int best = -1;
    for (int i = 0; i < S.nthreads; i++) if (!S.done[i] && (best < 0 || S.prio[i] > S.prio[best])) best = i;
    return best;
}
NOSAN static int lowest_live(void) { for (int i = 0; i < S.nthreads; i++) if (!S.done[i]) return i; return -1; }

// choose the thread to run when the current one has finished (or at region start: cur == -1)
NOSAN static int pick_after_completion(void) {
    int nxt;
    if (S.policy == POL_REPLAY) {
        nxt = -1;
        while (S.ireplay < S.nreplay && S.replay[S.ireplay].ev < S.events) S.ireplay++;  // stale entries
        if (S.ireplay < S.nreplay && S.replay[S.ireplay].kind == 1 && S.replay[S.ireplay].ev == S.events) {
            int t = S.replay[S.ireplay].thr; S.ireplay++;
            if (t >= 0 && t < S.nthreads && !S.done[t]) nxt = t;
        }
        if (nxt < 0) nxt = lowest_live();
    } else if (S.policy == POL_PCT) nxt = pick_highest_prio();
    else if (S.policy == POL_RR) {
        nxt = -1;
        for (int k = 1; k <= S.nthreads; k++) { int t = ((S.cur < 0 ? -1 : S.cur) + k) % S.nthreads; if (!S.done[t]) { nxt = t; break; } }
    } else nxt = pick_random_live(-1);
    if (nxt >= 0) trace_add(S.events, nxt, 1);
    return nxt;
}

NOSAN static inline void do_switch(int nxt) {
    if (nxt < 0 || nxt == S.cur || S.done[nxt]) return;
    int prev = S.cur;
    S.cur = nxt; S.switches++;
    trace_add(S.events, nxt, 0);
    swapcontext(&S.ctx[prev], &S.ctx[nxt]);
}

NOSAN static void report(const char *line) {
    if (S.report_fd >= 0) { ssize_t r = write(S.report_fd, line, strlen(line)); (void)r; }
}

NOSAN static void maybe_switch(uintptr_t pc) {
    if (S.nthreads <= 1 || S.hang) return;
    switch (S.policy) {
        case POL_RAND:
            if (S.p1 == 0) return;
            if (rng_next(&S.rng) % S.p2 >= S.p1) return;
            do_switch(pick_random_live(S.cur));
            return;
        case POL_RR:
            if (S.p1 == 0 || S.events % S.p1) return;
            for (int k = 1; k < S.nthreads; k++) { int t = (S.cur + k) % S.nthreads; if (!S.done[t]) { do_switch(t); return; } }
            return;
        case POL_ORDER:
            return;
        case POL_PCT:
            if (S.ichange < S.nchange && S.events >= S.change[S.ichange]) {
                S.ichange++;
                S.prio[S.cur] = --S.low_prio;
                do_switch(pick_highest_prio());
            }
            return;
        case POL_DIRECTED: {
            uintptr_t off = pc - image_base;
            for (int i = 0; i < S.ndir; i++)
                if (S.dir_pcs[i] == off) {
                    if (rng_next(&S.rng) & 1) do_switch(pick_random_live(S.cur));
                    return;
                }
            if (S.p1 && rng_next(&S.rng) % S.p2 < S.p1) do_switch(pick_random_live(S.cur));
            return;
        }
        case POL_REPLAY:
            while (S.ireplay < S.nreplay && S.replay[S.ireplay].ev < S.events) S.ireplay++;
            if (S.ireplay < S.nreplay && S.replay[S.ireplay].ev == S.events && S.replay[S.ireplay].kind == 0) {
                int t = S.replay[S.ireplay].thr; S.ireplay++;
                if (t >= 0 && t < S.nthreads) do_switch(t);
            }
            return;
    }
}

// ---------------------------------------------------------------- access hook
NOSAN static inline int in_range(const range_t *r, uintptr_t a, uintptr_t n) { return a >= r->lo && a + n <= r->hi; }
static range_t *last_hit;

NOSAN static void oob_record(uintptr_t a, int size, int is_write, uintptr_t pc) {
    S.oob++;
    uintptr_t off = pc - image_base;
    for (int i = 0; i < noobs; i++)
        if (oobs[i].pc_off == off && oobs[i].is_write == is_write) { oobs[i].count++; return; }
    if (noobs >= MAXOOB) return;
    oob_t *o = &oobs[noobs++];
    memset(o, 0, sizeof *o);
    strncpy(o->kernel, S.kernel, sizeof o->kernel - 1);
    o->pc_off = off; o->is_write = is_write; o->size = size; o->count = 1; o->nearest = -1;
    uint64_t best = ~(uint64_t)0;
    for (int i = 0; i < nbufs; i++) {
        uint64_t d = a < bufs[i].lo ? bufs[i].lo - a : (a >= bufs[i].hi ? a - bufs[i].hi + 1 : 0);
        if (d < best) { best = d; o->nearest = i; o->off = (int64_t)a - (int64_t)bufs[i].lo; }
    }
    char line[256];
    snprintf(line, sizeof line, "OOB kernel=%s pc=0x%lx write=%d size=%d nearest_arg=%d offset=%ld arg_len=%ld\n", o->kernel,
             (unsigned long)off, is_write, size, o->nearest, (long)o->off,
             o->nearest >= 0 ? (long)(bufs[o->nearest].hi - bufs[o->nearest].lo) : -1L);
    report(line);
}

NOSAN static void bounds_check(uintptr_t a, int size, int is_write, uintptr_t pc) {
    S.checked++;
    uintptr_t n = (uintptr_t)size;
    if (last_hit && in_range(last_hit, a, n)) return;
    uintptr_t sb = (uintptr_t)S.stacks;
    if (a >= sb && a + n <= sb + STACK_SZ * MAXT) return;
    if (in_range(&main_stack, a, n)) return;
    for (int i = 0; i < nbufs; i++) if (in_range(&bufs[i], a, n)) { last_hit = &bufs[i]; return; }
    for (int i = nblks - 1; i >= 0; i--) if (in_range(&blks[i], a, n)) { last_hit = &blks[i]; return; }
    for (int i = 0; i < nimage; i++) if (in_range(&image[i], a, n)) return;
    oob_record(a, size, is_write, pc);
}

NOSAN static inline void access_pc(void *p, int size, int is_write, void *ra) {
    if (!S.armed && !S.in_region) return;
    uintptr_t a = (uintptr_t)p, pc = (uintptr_t)ra;
    if (S.armed) bounds_check(a, size, is_write, pc);
    if (!S.in_region) return;
    S.events++;
    S.thread_events[S.cur]++;
    uintptr_t sb = (uintptr_t)S.stacks;
    if (S.nthreads > 1 && !(a >= sb && a < sb + STACK_SZ * MAXT)) {
        int t = S.cur;
        for (uintptr_t g = a >> 2; g <= (a + (uintptr_t)size - 1) >> 2; g++) {
            shadow_t *e = shadow_get(g, 1);
            if (!e) break;
            if (is_write) {
                if ((e->w >= 0 && e->w != t) || (e->r & ~((uint64_t)1 << t))) note_race(pc, e->w >= 0 && e->w != t);
                e->w = (int16_t)t;
            } else {
                if (e->w >= 0 && e->w != t) note_race(pc, 0);
                e->r |= (uint64_t)1 << t;
            }
        }
    }
    if (S.events > S.max_events && !S.hang) {
        S.hang = 1;
        char line[160];
        snprintf(line, sizeof line, "HANG kernel=%s events=%lu cap=%lu\n", S.kernel, (unsigned long)S.events, (unsigned long)S.max_events);
        report(line);
        _exit(98);
    }
    maybe_switch(pc);
}
#define ACC(p, s, w) access_pc(p, s, w, __builtin_return_address(0))
NOSAN void __tsan_init(void) {}
NOSAN void __tsan_func_entry(void *pc) { (void)pc; }
NOSAN void __tsan_func_exit(void) {}
NOSAN void __tsan_read1(void *p) { ACC(p, 1, 0); }
NOSAN void __tsan_write1(void *p) { ACC(p, 1, 1); }
NOSAN void __tsan_read2(void *p) { ACC(p, 2, 0); }
NOSAN void __tsan_write2(void *p) { ACC(p, 2, 1); }
NOSAN void __tsan_read4(void *p) { ACC(p, 4, 0); }
NOSAN void __tsan_write4(void *p) { ACC(p, 4, 1); }
NOSAN void __tsan_read8(void *p) { ACC(p, 8, 0); }
NOSAN void __tsan_write8(void *p) { ACC(p, 8, 1); }
NOSAN void __tsan_read16(void *p) { ACC(p, 16, 0); }
NOSAN void __tsan_write16(void *p) { ACC(p, 16, 1); }
NOSAN void __tsan_unaligned_read2(void *p) { ACC(p, 2, 0); }
NOSAN void __tsan_unaligned_write2(void *p) { ACC(p, 2, 1); }
NOSAN void __tsan_unaligned_read4(void *p) { ACC(p, 4, 0); }
NOSAN void __tsan_unaligned_write4(void *p) { ACC(p, 4, 1); }
NOSAN void __tsan_unaligned_read8(void *p) { ACC(p, 8, 0); }
NOSAN void __tsan_unaligned_write8(void *p) { ACC(p, 8, 1); }
NOSAN void __tsan_unaligned_read16(void *p) { ACC(p, 16, 0); }
NOSAN void __tsan_unaligned_write16(void *p) { ACC(p, 16, 1); }
NOSAN void __tsan_read_range(void *p, unsigned long n) { if (n) ACC(p, (int)n, 0); }
NOSAN void __tsan_write_range(void *p, unsigned long n) { if (n) ACC(p, (int)n, 1); }
NOSAN void __tsan_vptr_update(void **p, void *v) { (void)p; (void)v; }
NOSAN void __tsan_vptr_read(void **p) { (void)p; }
// atomics are not used by the kernels; gcc may still emit these for C++ statics in the glue
NOSAN void __tsan_atomic_thread_fence(int mo) { (void)mo; }
NOSAN void __tsan_atomic_signal_fence(int mo) { (void)mo; }
NOSAN uint8_t __tsan_atomic8_load(const volatile uint8_t *a, int mo) { (void)mo; return *a; }
NOSAN void __tsan_atomic8_store(volatile uint8_t *a, uint8_t v, int mo) { (void)mo; *a = v; }
NOSAN uint32_t __tsan_atomic32_load(const volatile uint32_t *a, int mo) { (void)mo; return *a; }
NOSAN void __tsan_atomic32_store(volatile uint32_t *a, uint32_t v, int mo) { (void)mo; *a = v; }
NOSAN uint64_t __tsan_atomic64_load(const volatile uint64_t *a, int mo) { (void)mo; return *a; }
NOSAN void __tsan_atomic64_store(volatile uint64_t *a, uint64_t v, int mo) { (void)mo; *a = v; }

// ---------------------------------------------------------------- OpenMP ABI
static void sync_reset(int T);
NOSAN static void thread_main(int tid) {
    uint64_t before = S.events;
    S.fn(S.data);
    if (S.thread_events[tid] == 0 || S.events == before) { /* nothing */ }
    S.done[tid] = 1;
    int nxt = pick_after_completion();
    if (nxt < 0) setcontext(&S.main_ctx);
    S.cur = nxt;
    setcontext(&S.ctx[nxt]);
}
NOSAN int omp_get_thread_num(void) { return (S.in_region && S.nest[S.cur] == 0) ? S.cur : 0; }
NOSAN int omp_get_num_threads(void) { return (S.in_region && S.nest[S.cur] == 0) ? S.nthreads : 1; }
NOSAN int omp_get_max_threads(void) { return S.team; }
NOSAN int omp_in_parallel(void) { return S.in_region; }

NOSAN void GOMP_parallel(void (*fn)(void *), void *data, unsigned num_threads, unsigned flags) {
    (void)flags;
    sim_init();
    if (S.in_region) {  // nested: team of one on the calling coroutine; monitors keep the outer thread id
        S.nested_regions++;
        S.nest[S.cur]++;
        fn(data);
        S.nest[S.cur]--;
        return;
    }
    int T = num_threads ? (int)num_threads : S.team;
    if (T > MAXT) T = MAXT;
    if (T < 1) T = 1;
    S.regions++;
    if (T > S.max_team_seen) S.max_team_seen = T;
    if (num_threads == 1) S.inline_regions++;
    S.fn = fn; S.data = data; S.nthreads = T;
    shadow_reset();
    for (int i = 0; i < T; i++) {
        S.done[i] = 0; S.nest[i] = 0; S.thread_events[i] = 0;
        getcontext(&S.ctx[i]);
        S.ctx[i].uc_stack.ss_sp = S.stacks + STACK_SZ * (size_t)i;
        S.ctx[i].uc_stack.ss_size = STACK_SZ;
        S.ctx[i].uc_link = &S.main_ctx;
        makecontext(&S.ctx[i], (void (*)(void))thread_main, 1, i);
    }
    if (S.policy == POL_PCT) {
        // seeded priorities and change points for this region
        for (int i = 0; i < T; i++) S.prio[i] = (int64_t)(rng_next(&S.rng) >> 16) + 1000;
        S.low_prio = 0;
        S.nchange = (int)(S.p1 > 64 ? 64 : S.p1);
        uint64_t span = S.p2 ? S.p2 : 1;
        for (int i = 0; i < S.nchange; i++) S.change[i] = S.events + 1 + rng_next(&S.rng) % span;
        for (int i = 1; i < S.nchange; i++)  // insertion sort
            for (int j = i; j > 0 && S.change[j] < S.change[j - 1]; j--) { uint64_t t = S.change[j]; S.change[j] = S.change[j - 1]; S.change[j - 1] = t; }
        S.ichange = 0;
    }
    sync_reset(T);
    S.in_region = 1;
    S.cur = -1;
    int first = pick_after_completion();
    S.cur = first;
    swapcontext(&S.main_ctx, &S.ctx[first]);
    for (int i = 0; i < T; i++) if (S.thread_events[i] < 40) S.empty_chunks++;  // heuristically: loop bounds only
    S.in_region = 0; S.nthreads = 1; S.cur = 0;
}

// ---------------------------------------------------------------- further libgomp entry points a future change may pull in
// (schedule(dynamic|guided|runtime), critical, atomic fallback, barrier, single).  All of them are yield points; with
// coroutines on one OS thread no real locking is needed, only "wait by yielding".
NOSAN static void force_switch(void) {
    if (!S.in_region || S.nthreads <= 1) return;
    S.events++;
    if (S.events > S.max_events && !S.hang) {
        S.hang = 1;
        report("HANG waiting in a synchronisation construct\n");
        _exit(98);
    }
    int nxt = -1;
    if (S.policy == POL_REPLAY) {
        while (S.ireplay < S.nreplay && S.replay[S.ireplay].ev < S.events) S.ireplay++;
        if (S.ireplay < S.nreplay && S.replay[S.ireplay].ev == S.events) { nxt = S.replay[S.ireplay].thr; S.ireplay++; }
        if (nxt < 0 || nxt >= S.nthreads || S.done[nxt] || nxt == S.cur) nxt = -1;
    }
    if (nxt < 0) {  // deterministic round robin over the other live threads
        for (int k = 1; k < S.nthreads; k++) { int t = (S.cur + k) % S.nthreads; if (!S.done[t]) { nxt = t; break; } }
    }
    if (nxt >= 0) do_switch(nxt);
}

static struct { long next, end, incr, chunk; int guided; int active; int arrived; } WS;
NOSAN static void ws_init(long start, long end, long incr, long chunk, int guided) {
    WS.next = start; WS.end = end; WS.incr = incr ? incr : 1; WS.chunk = chunk > 0 ? chunk : 1; WS.guided = guided; WS.active = 1;
}
NOSAN static int ws_next(long *istart, long *iend) {
    maybe_switch(0);
    long remaining = WS.incr > 0 ? (WS.end - WS.next + WS.incr - 1) / WS.incr : (WS.next - WS.end - WS.incr - 1) / (-WS.incr);
    if (remaining <= 0) return 0;
    long n = WS.chunk;
    if (WS.guided) { long g = remaining / (S.nthreads > 0 ? S.nthreads : 1); if (g > n) n = g; }
    if (n > remaining) n = remaining;
    *istart = WS.next; *iend = WS.next + n * WS.incr; WS.next = *iend;
    return 1;
}
#define PARLOOP(name, guided)                                                                                          \
    NOSAN void name(void (*fn)(void *), void *data, unsigned nt, long start, long end, long incr, long chunk, unsigned flags) { \
        ws_init(start, end, incr, chunk, guided);                                                                      \
        GOMP_parallel(fn, data, nt, flags);                                                                            \
    }
PARLOOP(GOMP_parallel_loop_dynamic, 0)
PARLOOP(GOMP_parallel_loop_nonmonotonic_dynamic, 0)
PARLOOP(GOMP_parallel_loop_guided, 1)
PARLOOP(GOMP_parallel_loop_nonmonotonic_guided, 1)
PARLOOP(GOMP_parallel_loop_runtime, 0)
PARLOOP(GOMP_parallel_loop_nonmonotonic_runtime, 0)
PARLOOP(GOMP_parallel_loop_maybe_nonmonotonic_runtime, 0)
#define LOOPNEXT(name) NOSAN int name(long *istart, long *iend) { return ws_next(istart, iend); }
LOOPNEXT(GOMP_loop_dynamic_next)
LOOPNEXT(GOMP_loop_nonmonotonic_dynamic_next)
LOOPNEXT(GOMP_loop_guided_next)
LOOPNEXT(GOMP_loop_nonmonotonic_guided_next)
LOOPNEXT(GOMP_loop_runtime_next)
LOOPNEXT(GOMP_loop_nonmonotonic_runtime_next)
LOOPNEXT(GOMP_loop_maybe_nonmonotonic_runtime_next)
#define LOOPSTART(name, guided)                                                                 \
    NOSAN int name(long start, long end, long incr, long chunk, long *istart, long *iend) {     \
        if (!WS.active || WS.arrived == 0) ws_init(start, end, incr, chunk, guided);            \
        WS.arrived++;                                                                           \
        return ws_next(istart, iend);                                                           \
    }
LOOPSTART(GOMP_loop_dynamic_start, 0)
LOOPSTART(GOMP_loop_nonmonotonic_dynamic_start, 0)
LOOPSTART(GOMP_loop_guided_start, 1)
LOOPSTART(GOMP_loop_nonmonotonic_guided_start, 1)
static int bar_count, bar_gen;
NOSAN static void sim_barrier(void) {
    if (!S.in_region || S.nthreads <= 1 || S.nest[S.cur]) return;
    int gen = bar_gen;
    if (++bar_count >= n_live()) { bar_count = 0; bar_gen++; WS.arrived = 0; return; }
    while (gen == bar_gen) force_switch();
}
NOSAN void GOMP_barrier(void) { sim_barrier(); }
NOSAN void GOMP_loop_end(void) { sim_barrier(); }
NOSAN void GOMP_loop_end_nowait(void) {}
static int crit_locked;
NOSAN void GOMP_critical_start(void) { while (crit_locked) force_switch(); crit_locked = 1; }
NOSAN void GOMP_critical_end(void) { crit_locked = 0; maybe_switch(0); }
NOSAN void GOMP_critical_name_start(void **p) { (void)p; GOMP_critical_start(); }
NOSAN void GOMP_critical_name_end(void **p) { (void)p; GOMP_critical_end(); }
NOSAN void GOMP_atomic_start(void) { GOMP_critical_start(); }
NOSAN void GOMP_atomic_end(void) { GOMP_critical_end(); }
static int single_gen[MAXT], single_done;
NOSAN int GOMP_single_start(void) {
    int me = S.in_region ? S.cur : 0;
    int g = single_gen[me]++;
    if (g >= single_done) { single_done = g + 1; return 1; }
    return 0;
}
NOSAN static void sync_reset(int T) {
    bar_count = 0; crit_locked = 0; WS.arrived = 0; single_done = 0;
    for (int i = 0; i < T && i < MAXT; i++) single_gen[i] = 0;
}
// lock-free atomics gcc may emit for `#pragma omp atomic` / reductions under -fsanitize=thread
NOSAN int __tsan_atomic64_compare_exchange_strong(volatile uint64_t *a, uint64_t *c, uint64_t v, int mo, int fmo) {
    (void)mo; (void)fmo; if (*a == *c) { *a = v; return 1; } *c = *a; return 0;
}
NOSAN int __tsan_atomic64_compare_exchange_weak(volatile uint64_t *a, uint64_t *c, uint64_t v, int mo, int fmo) {
    return __tsan_atomic64_compare_exchange_strong(a, c, v, mo, fmo);
}
NOSAN uint64_t __tsan_atomic64_compare_exchange_val(volatile uint64_t *a, uint64_t c, uint64_t v, int mo, int fmo) {
    (void)mo; (void)fmo; uint64_t o = *a; if (o == c) *a = v; return o;
}
NOSAN int __tsan_atomic32_compare_exchange_strong(volatile uint32_t *a, uint32_t *c, uint32_t v, int mo, int fmo) {
    (void)mo; (void)fmo; if (*a == *c) { *a = v; return 1; } *c = *a; return 0;
}
NOSAN uint64_t __tsan_atomic64_fetch_add(volatile uint64_t *a, uint64_t v, int mo) { (void)mo; uint64_t o = *a; *a = o + v; return o; }
NOSAN uint32_t __tsan_atomic32_fetch_add(volatile uint32_t *a, uint32_t v, int mo) { (void)mo; uint32_t o = *a; *a = o + v; return o; }
NOSAN uint64_t __tsan_atomic64_exchange(volatile uint64_t *a, uint64_t v, int mo) { (void)mo; uint64_t o = *a; *a = v; return o; }

// ---------------------------------------------------------------- allocator wrappers (kernels are compiled with -Dmalloc=sim_malloc -Dfree=sim_free)
NOSAN void *sim_malloc(size_t n) {
    void *p = malloc(n ? n : 1);
    if (p && nblks < MAXBLK) { blks[nblks].lo = (uintptr_t)p; blks[nblks].hi = (uintptr_t)p + n; blks[nblks].writable = 1; nblks++; }
    return p;
}
NOSAN void sim_free(void *p) {
    if (!p) return;
    for (int i = nblks - 1; i >= 0; i--)
        if (blks[i].lo == (uintptr_t)p) {
            if (S.in_region && shadow)
                for (uintptr_t g = blks[i].lo >> 2; g <= (blks[i].hi - 1) >> 2 && blks[i].hi > blks[i].lo; g++) {
                    shadow_t *e = shadow_get(g, 0);
                    if (e) { e->w = -1; e->r = 0; }
                }
            if (last_hit == &blks[i] || last_hit == &blks[nblks - 1]) last_hit = NULL;
            blks[i] = blks[nblks - 1]; nblks--;
            break;
        }
    free(p);
}

// ---------------------------------------------------------------- hooks called by the binding shim
#define MAXK 48
static struct { char name[64]; uint64_t n; } kcount[MAXK];
static int nk;
NOSAN static void count_kernel(const char *name) {
    for (int i = 0; i < nk; i++) if (!strcmp(kcount[i].name, name)) { kcount[i].n++; return; }
    if (nk < MAXK) { strncpy(kcount[nk].name, name, 63); kcount[nk].n = 1; nk++; }
}
NOSAN int sim_kernel_count(int i, char *name, uint64_t *n) {
    if (i < 0 || i >= nk) return 0;
    strcpy(name, kcount[i].name); *n = kcount[i].n; return 1;
}
NOSAN void simhook_call_begin(const char *name) {
    sim_init();
    count_kernel(name);
    strncpy(S.kernel, name, sizeof S.kernel - 1); S.kernel[sizeof S.kernel - 1] = 0;
    nbufs = 0; last_hit = NULL;
}
NOSAN void simhook_register_buffer(void *p, size_t nbytes, int writable) {
    if (nbufs < MAXBUF) { bufs[nbufs].lo = (uintptr_t)p; bufs[nbufs].hi = (uintptr_t)p + nbytes; bufs[nbufs].writable = writable; nbufs++; }
}
NOSAN void simhook_arm(void) { S.armed = 1; }
NOSAN void simhook_call_end(void) { S.armed = 0; nbufs = 0; last_hit = NULL; }

// ---------------------------------------------------------------- control interface (ctypes)
NOSAN void sim_configure(uint64_t seed, int team, int policy, uint64_t p1, uint64_t p2, uint64_t max_events, int record) {
    sim_init();
    S.rng.s = seed; S.team = team < 1 ? 1 : (team > MAXT ? MAXT : team); S.policy = policy; S.p1 = p1; S.p2 = p2 ? p2 : 1;
    S.max_events = max_events ? max_events : (uint64_t)1 << 40;
    S.record = record; S.ntrace = 0; S.ireplay = 0;
    S.events = S.switches = S.regions = S.nested_regions = S.races = S.checked = S.oob = S.empty_chunks = S.inline_regions = 0;
    S.max_team_seen = 0; S.hang = 0;
    nracepc = 0; noobs = 0; shadow_overflow = 0;
}
NOSAN void sim_set_replay(const trace_t *t, size_t n) { S.replay = t; S.nreplay = n; S.ireplay = 0; }
NOSAN void sim_set_directed(const uintptr_t *offs, int n) { S.ndir = n > 128 ? 128 : n; for (int i = 0; i < S.ndir; i++) S.dir_pcs[i] = offs[i]; }
NOSAN void sim_set_report_fd(int fd) { S.report_fd = fd; }
NOSAN size_t sim_get_trace(trace_t *out, size_t cap) { size_t n = S.ntrace < cap ? S.ntrace : cap; memcpy(out, S.trace, n * sizeof(trace_t)); return S.ntrace; }
NOSAN void sim_stats(uint64_t *out) {
    out[0] = S.events; out[1] = S.switches; out[2] = S.regions; out[3] = S.races; out[4] = S.checked; out[5] = S.oob;
    out[6] = S.nested_regions; out[7] = S.empty_chunks; out[8] = (uint64_t)S.max_team_seen; out[9] = S.inline_regions;
    out[10] = shadow_overflow; out[11] = (uint64_t)nblks;
}
NOSAN int sim_race_pcs(uintptr_t *pcs, uint64_t *ns, int *ww, int cap) {
    int n = nracepc < cap ? nracepc : cap;
    for (int i = 0; i < n; i++) { pcs[i] = racepc[i].pc - image_base; ns[i] = racepc[i].n; ww[i] = racepc[i].ww; }
    return n;
}
NOSAN int sim_get_oob(int i, char *kernel, uintptr_t *pc_off, int *is_write, int *size, int *nearest, int64_t *off, uint64_t *count) {
    if (i < 0 || i >= noobs) return 0;
    strcpy(kernel, oobs[i].kernel); *pc_off = oobs[i].pc_off; *is_write = oobs[i].is_write; *size = oobs[i].size;
    *nearest = oobs[i].nearest; *off = oobs[i].off; *count = oobs[i].count;
    return 1;
}

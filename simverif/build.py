"""Build the extension variants from the repository working tree.

Variants (see DESIGN.md 2.1):
  sim     gcc -O0 -fopenmp -fsanitize=thread objects linked with csim/simgomp.c
          (the simulated OpenMP runtime) instead of libgomp/libtsan
  sim1    same at -O1 (different code generation; thorough tier)
  serial  gcc -O2, OpenMP not compiled in
  asan    gcc -O1 -fsanitize=address,undefined, OpenMP not compiled in (needs
          libasan preloaded; used by the C13 memory-safety sub-run)

Output goes to /verif/.build/<content-hash>/<variant>/_phonopy.so; the hash covers
every input of the build, so an edited working tree is always rebuilt.
"""

from __future__ import annotations

import hashlib
import os
import shutil
import subprocess
import sys
import sysconfig
from concurrent.futures import ThreadPoolExecutor

VERIF = os.path.dirname(os.path.dirname(os.path.abspath(__file__)))
CSIM = os.path.join(VERIF, "csim")
BUILD_ROOT = os.environ.get("VERIF_BUILD_ROOT", os.path.join(VERIF, ".build"))

C_SOURCES = ["phonopy.c", "dynmat.c", "derivative_dynmat.c", "rgrid.c", "tetrahedron_method.c"]
GLUE = "_phonopy.cpp"

COMMON = ["-fPIC", "-DTHM_EPSILON=1e-10", "-w"]
VARIANTS = {
    "sim": dict(
        cflags=["-O0", "-g", "-fopenmp", "-fsanitize=thread"],
        c_only=["-Dmalloc=sim_malloc", "-Dfree=sim_free"],
        runtime=True,
        ldflags=["-Wl,-Bsymbolic"],
    ),
    "sim1": dict(
        cflags=["-O1", "-g", "-fopenmp", "-fsanitize=thread"],
        c_only=["-Dmalloc=sim_malloc", "-Dfree=sim_free"],
        runtime=True,
        ldflags=["-Wl,-Bsymbolic"],
    ),
    "serial": dict(cflags=["-O2"], runtime=False, ldflags=[]),
    # same optimisation level as "sim" without -fopenmp / instrumentation: the
    # "OpenMP not compiled in" twin used for the bitwise build comparison of C13
    "serial0": dict(cflags=["-O0", "-g"], runtime=False, ldflags=[]),
    # real libgomp, real threads: used ONLY by the stub-fidelity self-test (uncontrolled executions, not evidence)
    "omp": dict(cflags=["-O2", "-fopenmp"], runtime=False, ldflags=["-fopenmp"]),
    "asan": dict(
        cflags=["-O1", "-g", "-fsanitize=address,undefined", "-fno-omit-frame-pointer", "-fno-sanitize-recover=undefined"],
        runtime=False,
        ldflags=["-fsanitize=address,undefined"],
    ),
}


def repo_root() -> str:
    return os.environ.get("VERIF_REPO", "/repo")


def _inputs(repo: str):
    files = []
    cdir = os.path.join(repo, "c")
    for f in sorted(os.listdir(cdir)):
        if f.endswith((".c", ".h", ".cpp")):
            files.append(os.path.join(cdir, f))
    for root, _, fs in os.walk(CSIM):
        for f in sorted(fs):
            files.append(os.path.join(root, f))
    return sorted(files)


def content_hash(repo: str) -> str:
    h = hashlib.sha256()
    for f in _inputs(repo):
        h.update(os.path.relpath(f, "/").encode())
        with open(f, "rb") as fh:
            h.update(fh.read())
    h.update(repr(sorted((k, sorted(v.items())) for k, v in VARIANTS.items())).encode())
    h.update(sys.version.encode())
    return h.hexdigest()[:16]


def _run(cmd):
    r = subprocess.run(cmd, capture_output=True, text=True)
    if r.returncode != 0:
        raise RuntimeError("build failed: %s\n%s\n%s" % (" ".join(cmd), r.stdout, r.stderr))


def build_variant(name: str, repo: str, outdir: str) -> str:
    v = VARIANTS[name]
    os.makedirs(outdir, exist_ok=True)
    so = os.path.join(outdir, "_phonopy.so")
    if os.path.exists(so):
        return so
    tmp = outdir + ".tmp%d" % os.getpid()
    shutil.rmtree(tmp, ignore_errors=True)
    os.makedirs(tmp)
    cdir = os.path.join(repo, "c")
    pyinc = sysconfig.get_paths()["include"]
    jobs = []
    objs = []
    for src in C_SOURCES:
        o = os.path.join(tmp, src + ".o")
        objs.append(o)
        jobs.append(["gcc", "-std=gnu11"] + COMMON + v["cflags"] + v.get("c_only", []) + ["-I", cdir, "-c", os.path.join(cdir, src), "-o", o])
    o = os.path.join(tmp, "glue.o")
    objs.append(o)
    jobs.append(
        ["g++", "-std=c++17"] + COMMON + v["cflags"] + ["-I", CSIM, "-I", pyinc, "-I", cdir, "-c", os.path.join(cdir, GLUE), "-o", o]
    )
    if v["runtime"]:
        o = os.path.join(tmp, "simgomp.o")
        objs.append(o)
        jobs.append(["gcc", "-std=gnu11", "-O2", "-g", "-fPIC", "-w", "-c", os.path.join(CSIM, "simgomp.c"), "-o", o])
    with ThreadPoolExecutor(max_workers=len(jobs)) as ex:
        list(ex.map(_run, jobs))
    so_tmp = os.path.join(tmp, "_phonopy.so")
    _run(["g++", "-shared", "-o", so_tmp] + objs + v["ldflags"] + ["-lm", "-ldl", "-lpthread"])
    os.replace(so_tmp, so)
    shutil.rmtree(tmp, ignore_errors=True)
    return so


def build(variants=("sim", "serial"), repo: str | None = None) -> dict:
    repo = repo or repo_root()
    h = content_hash(repo)
    root = os.path.join(BUILD_ROOT, h)
    out = {}
    with ThreadPoolExecutor(max_workers=len(variants)) as ex:
        futs = {name: ex.submit(build_variant, name, repo, os.path.join(root, name)) for name in variants}
        for name, f in futs.items():
            out[name] = f.result()
    _prune(keep=h)
    return out


def _prune(keep: str, max_keep: int = 4):
    """Bound disk use: keep the newest few content hashes only."""
    try:
        ds = [d for d in os.listdir(BUILD_ROOT) if os.path.isdir(os.path.join(BUILD_ROOT, d))]
    except FileNotFoundError:
        return
    ds.sort(key=lambda d: os.path.getmtime(os.path.join(BUILD_ROOT, d)), reverse=True)
    for d in ds[max_keep:]:
        if d != keep:
            shutil.rmtree(os.path.join(BUILD_ROOT, d), ignore_errors=True)


if __name__ == "__main__":
    names = sys.argv[1:] or ["sim", "sim1", "serial"]
    for k, p in build(tuple(names)).items():
        print(k, p)

"""C18 — command-line tools are faithful front-ends of the library (claimed in part).

Deciding method: a multi-process workflow over a simulated directory.  Every
invocation of the real `phonopy` / `phonopy-load` entry points runs in a fresh
forked process whose only link to the previous step is the directory; calculator
jobs are the C17 peers.  Each step is refined against explicit library calls made
from the same directory content (files compared at the printed precision), every
step is executed twice with each setting sent through the opposite parsing route
(configuration-file tag vs command-line option) and the two resulting
directories must agree, and the summary file of the last step is reloaded by a
restarted process.  Faults: process restart between all steps, kill right after
a step reports success (os._exit, no interpreter shutdown), stale files of an
unrelated calculation under auto-discovered names.
"""

from __future__ import annotations

import contextlib
import io
import os
import re
import shutil
import sys

import numpy as np

from . import core, peers, simfs
from .world import World, CRYSTALS

PROP = "C18"
RUN_TIMEOUT = 1200.0
SHRINK_BUDGET = 40
RULE = (
    "one evaluation = one workflow: create displacements (-d) -> peers -> collect forces (-f) -> 1..3 post-processing invocations (mesh / band / "
    "qpoints / dos / pdos / thermal properties / write-fc then read-fc, with seeded subsets of the tag/option table, phonopy or phonopy-load) -> "
    "reload of phonopy.yaml; every invocation is a fresh process and is run twice with tag/option routes swapped. distinct = distinct (step "
    "kinds, set of tags used, route assignment, command, crystal, faults); non-trivial = at least one setting went through each route and at "
    "least one post-processing step completed, or a stale-file fault was present"
)
ASSUMPTIONS = [
    "the library-side reference is the checker's reading of the documented meaning of each tag (doc/setting-tags.md, doc/command-options.md), written with explicit API calls (read POSCAR, Phonopy(...), parse_FORCE_SETS, produce_force_constants, run_*)",
    "files are compared at the precision printed in them; route-swapped directories are compared file by file (numbers exactly, since both runs execute the same code) ignoring the echo of the command line / configuration block in phonopy.yaml",
    "vasp and qe calculators at the file level (units of the other calculators are C17's subject); tags needing absent packages (symfc, alm, pypolymlp, seekpath) and plotting options are excluded",
    "stale files are injected only where the documentation says they are not read (BORN without NAC in the phonopy command; FORCE_CONSTANTS without --readfc in the phonopy command)",
]

CELLFILE = {"vasp": "POSCAR", "qe": "unitcell.in"}
CALC_OPT = {"vasp": [], "qe": ["--qe"]}
FC_UNIT_LABEL = {"vasp": "eV/angstrom^2", "qe": "Ry/au^2"}  # documented force-constant unit per calculator
_E = None


def prepare(tier):
    global _E
    if _E is None:
        from .ext import Ext

        _E = Ext(("serial",))
        import phonopy.scripts.phonopy  # noqa: F401
        import phonopy.scripts.phonopy_load  # noqa: F401


def components():
    return {
        "real": ["phonopy.scripts.phonopy.run / phonopy_load.run (argparse, ConfParser, Settings, phonopy_script.main, _run_calculation, _finalize_phonopy)",
                 "create_FORCE_SETS, file writers", "serial build of the kernels"],
        "simulated": ["process boundaries (one forked process per invocation, cwd = the run's directory, sys.argv patched, stdout captured, SystemExit = exit status)",
                      "kill right after the step reports success (os._exit)", "calculator jobs (C17 peers, VASP format)", "stale files under auto-discovered names",
                      "datetime: not patched - it is only printed to the captured stdout and never enters a compared file"],
        "stub": ["nanobind -> binding shim", "VASP -> peers"],
        "reference_model": "explicit library calls on the same directory content",
    }


def n_runs(tier):
    return 300 if tier == "quick" else 6000


# ------------------------------------------------------------------ the tag/option table (subset exercised; see evidence for hit counts)
# name -> (TAG, option, kind) ; kind: "true" (TAG=.TRUE. <-> flag), "false" (TAG=.FALSE. <-> flag), "value"
TABLE = {
    "dim": ("DIM", "--dim", "value"), "pa": ("PRIMITIVE_AXES", "--pa", "value"), "cell": ("CELL_FILENAME", "-c", "value"),
    "create_displacements": ("CREATE_DISPLACEMENTS", "-d", "true"), "amplitude": ("DISPLACEMENT_DISTANCE", "--amplitude", "value"),
    "pm": ("PM", "--pm", "true"), "nodiag": ("DIAG", "--nodiag", "false"),
    "rd": ("RANDOM_DISPLACEMENTS", "--rd", "value"), "random_seed": ("RANDOM_SEED", "--random-seed", "value"),
    "mesh": ("MESH", "--mesh", "value"), "mp_shift": ("MP_SHIFT", None, "value"), "gc": ("GAMMA_CENTER", "--gc", "true"), "nomeshsym": ("MESH_SYMMETRY", "--nomeshsym", "false"),
    "eigvecs": ("EIGENVECTORS", "--eigvecs", "true"), "gv": ("GROUP_VELOCITY", "--gv", "true"), "nowritemesh": ("WRITE_MESH", "--nowritemesh", "false"),
    "band": ("BAND", "--band", "value"), "band_points": ("BAND_POINTS", "--band-points", "value"), "band_connection": ("BAND_CONNECTION", "--band-connection", "true"),
    "band_const_interval": ("BAND_CONST_INTERVAL", "--band-const-interval", "true"), "band_labels": ("BAND_LABELS", "--band-labels", "value"),
    "qpoints": ("QPOINTS", "--qpoints", "value"), "writedm": ("WRITEDM", "--writedm", "true"),
    "dos": ("DOS", "--dos", "true"), "sigma": ("SIGMA", "--sigma", "value"), "fmin": ("FMIN", "--fmin", "value"), "fmax": ("FMAX", "--fmax", "value"), "fpitch": ("FPITCH", "--fpitch", "value"),
    "pdos": ("PDOS", "--pdos", "value"), "xyz_projection": ("XYZ_PROJECTION", "--xyz-projection", "true"),
    "dos_range": ("DOS_RANGE", None, "value"), "projection_direction": ("PROJECTION_DIRECTION", "--pd", "value"), "gv_delta_q": ("GV_DELTA_Q", "--gv-delta-q", "value"),
    "tprop": ("TPROP", "-t", "true"), "tmin": ("TMIN", "--tmin", "value"), "tmax": ("TMAX", "--tmax", "value"), "tstep": ("TSTEP", "--tstep", "value"),
    "cutoff_freq": ("CUTOFF_FREQUENCY", "--cutoff-freq", "value"), "pretend_real": ("PRETEND_REAL", "--pr", "true"),
    "nac": ("NAC", "--nac", "true"), "nac_method": ("NAC_METHOD", "--nac-method", "value"), "q_direction": ("Q_DIRECTION", "--q-direction", "value"),
    "nosym": ("SYMMETRY", "--nosym", "false"), "tolerance": ("SYMMETRY_TOLERANCE", "--tolerance", "value"), "fc_symmetry": ("FC_SYMMETRY", "--fc-symmetry", "true"),
    "full_fc": ("FULL_FORCE_CONSTANTS", "--full-fc", "true"), "readfc": ("READ_FORCE_CONSTANTS", "--readfc", "true"), "writefc": ("WRITE_FORCE_CONSTANTS", "--writefc", "true"),
    "writefc_format": ("WRITEFC_FORMAT", "--writefc-format", "value"), "readfc_format": ("READFC_FORMAT", "--readfc-format", "value"),
    "fc_format": ("FC_FORMAT", "--fc-format", "value"),  # one setting for both directions
    "factor": ("FREQUENCY_CONVERSION_FACTOR", "--factor", "value"), "mesh_format": ("MESH_FORMAT", "--mesh-format", "value"),
    "band_format": ("BAND_FORMAT", "--band-format", "value"), "qpoints_format": ("QPOINTS_FORMAT", "--qpoints-format", "value"),
    "include_all": ("INCLUDE_ALL", "--include-all", "true"), "fc_calc": ("FC_CALCULATOR", "--fc-calc", "value"),
    # phonopy-load only (NAC and FC_SYMMETRY default to on there)
    "tdisp": ("TDISP", "--td", "true"), "tdispmat": ("TDISPMAT", "--tdm", "true"), "mass": ("MASS", "--mass", "value"), "hdf5": ("HDF5", "--hdf5", "true"),
    "nonac": ("NAC", "--nonac", "false"), "no_sym_fc": ("FC_SYMMETRY", "--no-sym-fc", "false"),
}


def render(settings, routes):
    """settings: {name: value}; routes: {name: "tag"|"opt"} -> (conf text, option argv list)."""
    conf, argv = [], []
    for name, val in settings.items():
        tag, opt, kind = TABLE[name]
        if kind == "true" and val is False:
            # a switch stated as off: "TAG = .FALSE." through the tag route, simply absent through the option route
            if routes.get(name, "opt") == "tag":
                conf.append("%s = .FALSE." % tag)
            continue
        if opt is None or routes.get(name, "opt") == "tag":  # opt None: the setting exists as a tag only (it still mixes with options)
            if kind == "true":
                conf.append("%s = .TRUE." % tag)
            elif kind == "false":
                conf.append("%s = .FALSE." % tag)
            else:
                conf.append("%s = %s" % (tag, val))
        else:
            if kind in ("true", "false"):
                argv.append(opt)
            else:
                argv += [opt, str(val)]
    return "\n".join(conf) + "\n", argv


# ------------------------------------------------------------------ generation
def _fmt(v):
    return " ".join(str(x) for x in v)


def gen_post_step(rng, w, has_born, prev_wrote_fc, force_cmd=None):
    mode = rng.choice(["mesh", "band", "qpoints", "dos", "pdos", "tprop", "writefc", "band_mesh", "tdisp", "tdispmat"] + (["readfc"] if prev_wrote_fc else []))
    s = {}
    cmd = rng.choice(["phonopy", "phonopy", "phonopy-load"])
    if force_cmd:
        # with left-over BORN / FORCE_CONSTANTS in the directory only the phonopy command is used: phonopy-load reads those
        # files by documented design, so they would not be a fault there
        cmd = force_cmd
    mesh = [rng.randint(1, 3) for _ in range(3)]
    if mode in ("mesh", "dos", "pdos", "tprop", "band_mesh", "tdisp", "tdispmat"):
        s["mesh"] = _fmt(mesh)
        if rng.random() < 0.4:
            s["gc"] = True
        if rng.random() < 0.3:
            s["nomeshsym"] = True
        if rng.random() < 0.25:
            s["mp_shift"] = " ".join(rng.choice(["0", "1/2", "0.5"]) for _ in range(3))
    if mode == "mesh":
        if rng.random() < 0.4:
            s["eigvecs"] = True
        if rng.random() < 0.3:
            s["gv"] = True
        if rng.random() < 0.25:
            s["mesh_format"] = "hdf5"
    elif mode in ("tdisp", "tdispmat"):
        s[mode] = True
        s["tmin"], s["tmax"], s["tstep"] = rng.choice([0, 0, 25.5]), rng.choice([300, 600, 410.0]), rng.choice([100, 150, 62.5])
        # without a frequency cut-off the acoustic modes at Gamma (+-1e-8 THz of rounding noise) enter as 1/omega: the
        # written numbers are then ~1e14 and noise, not a property of either front-end
        s["fmin"] = rng.choice([0.1, 0.2])
        s.pop("nomeshsym", None)
        if mode == "tdisp" and rng.random() < 0.4:
            s["projection_direction"] = rng.choice(["1 0 0", "0 0 1", "1 1 0", "1 -1 2"])  # displacements along one (fractional) direction
    elif mode in ("band", "band_mesh"):
        pts = [[0, 0, 0], [0.5, 0, 0], [0.5, 0.5, 0], [0.5, 0.5, 0.5], [0, 0.5, 0.5], [0.25, 0.25, 0]]
        path = rng.sample(pts, rng.randint(2, 3))
        if path[0][0] < 0:
            path.reverse()
        s["band"] = "  ".join(_fmt(p) for p in path)
        if mode == "band" and rng.random() < 0.35:
            # two sections separated by a comma (a break in the path) and one label per section end
            path2 = rng.sample(pts, 2)
            s["band"] = s["band"] + ",  " + "  ".join(_fmt(p) for p in path2)
            s["band_labels"] = " ".join("P%d" % i_ for i_ in range(len(path) + 2))
        s["band_points"] = rng.choice([3, 5, 11])
        if len(path) > 2 and "band_labels" not in s and rng.random() < 0.4:
            s["band_const_interval"] = True  # segments sampled with similar spacing: needs the reciprocal lattice
            s["band_points"] = rng.choice([11, 17])
        if rng.random() < 0.3:
            s["band_connection"] = True
        if rng.random() < 0.3:
            s["eigvecs"] = True
        if rng.random() < 0.25:
            s["gv"] = True
        if rng.random() < 0.25 and mode == "band" and not s.get("band_const_interval"):
            s["band_format"] = "hdf5"  # (not with segments of different lengths: BandStructure.write_hdf5 cannot store a ragged path list)
        if mode == "band_mesh":
            for k in ("eigvecs", "gv", "band_connection"):
                s.pop(k, None)
    elif mode == "qpoints":
        qs = [[0.1, 0.2, 0.3], [0.5, 0, 0], [0, 0, 0], [0.25, 0.25, 0.25], [0.5, 0.5, 0.5]]
        sel = rng.sample(qs, rng.randint(1, 3))
        s["qpoints"] = "  ".join(_fmt(q) for q in sel)
        if rng.random() < 0.4:
            s["eigvecs"] = True
        if rng.random() < 0.4:
            s["writedm"] = True
        if rng.random() < 0.25:
            s["gv"] = True
        if rng.random() < 0.25:
            s["qpoints_format"] = "hdf5"
    elif mode == "dos":
        s["dos"] = True
        if rng.random() < 0.5:
            s["sigma"] = rng.choice([0.1, 0.25])
        if rng.random() < 0.5:
            s["fmin"], s["fmax"], s["fpitch"] = 0.0, rng.choice([8.0, 10.0]), rng.choice([0.5, 0.25])
            if rng.random() < 0.35:
                s["dos_range"] = "%s %s %s" % (s.pop("fmin"), s.pop("fmax"), s.pop("fpitch"))
    elif mode == "pdos":
        nprim = len(CRYSTALS[w.name]["symbols"])
        s["pdos"] = rng.choice(["1", "1 2" if nprim > 1 else "1"])
        if rng.random() < 0.3:
            s["xyz_projection"] = True
        if rng.random() < 0.5:
            s["sigma"] = 0.2
        s["fmin"], s["fmax"], s["fpitch"] = 0.0, 9.0, 0.5
        if rng.random() < 0.3:
            s["dos_range"] = "%s %s %s" % (s.pop("fmin"), s.pop("fmax"), s.pop("fpitch"))
        if "xyz_projection" not in s and rng.random() < 0.3:
            s["projection_direction"] = rng.choice(["1 0 0", "0 0 1", "1 1 0", "1 -1 2"])
    elif mode == "tprop":
        s["tprop"] = True
        s["tmin"], s["tmax"], s["tstep"] = rng.choice([0, 50, 12.5]), rng.choice([300, 500, 333.3]), rng.choice([50, 100, 37.5])
        # always with a cut-off: at the default cut-off 0 an acoustic Gamma mode of +-1e-8 THz (rounding noise whose sign
        # differs between compact/full or symmetrised/unsymmetrised force constants) enters or leaves the sums and moves
        # F and S by ~1 kJ/mol (section 2.4 of DESIGN.md)
        s["cutoff_freq"] = rng.choice([0.05, 0.1])
    elif mode == "writefc":
        s["writefc"] = True
        if rng.random() < 0.5:
            s["full_fc"] = True
        if rng.random() < 0.5:
            s[rng.choice(["writefc_format", "fc_format"])] = "hdf5"
    elif mode == "readfc":
        s["readfc"] = True
        s["mesh"] = _fmt(mesh)
    # cross-cutting settings
    if cmd == "phonopy":
        if has_born and rng.random() < 0.5 and mode not in ("writefc",):
            s["nac"] = True
        if rng.random() < 0.2:
            s["fc_symmetry"] = True
    else:
        if has_born and rng.random() < 0.3:
            s["nonac"] = True
        if rng.random() < 0.2:
            s["no_sym_fc"] = True
    if has_born and (s.get("nac") or (cmd == "phonopy-load" and not s.get("nonac"))) and mode not in ("writefc",):
        if rng.random() < 0.4:
            s["nac_method"] = rng.choice(["wang", "gonze"])
        if mode == "qpoints" and rng.random() < 0.6:
            s["q_direction"] = rng.choice(["1 0 0", "0 0 1", "1 1 0"])
            if "0 0 0" not in s["qpoints"]:
                s["qpoints"] = "0 0 0  " + s["qpoints"]  # the direction only matters at the zone centre
    if s.get("gv") and cmd == "phonopy" and rng.random() < 0.35:
        s["gv_delta_q"] = rng.choice(["0.0001", "0.001"])  # phonopy command only: phonopy.load() has no such argument
    if rng.random() < 0.1:
        s["factor"] = 521.47083
    if rng.random() < 0.1:
        s["tolerance"] = 1e-4
    if rng.random() < 0.15:
        s["include_all"] = True
    # switches stated explicitly as off (the default): must change nothing, through either route
    for name_ in ("include_all", "eigvecs", "gv", "writedm", "band_connection", "xyz_projection", "gc"):
        if name_ not in s and rng.random() < 0.06:
            s[name_] = False
    if rng.random() < 0.08 and mode in ("mesh", "band", "qpoints") and not any(k.endswith("_format") for k in s) and not s.get("band_const_interval"):
        s["hdf5"] = True  # all outputs of the step in hdf5
    if rng.random() < 0.2 and mode in ("dos", "tprop"):
        s["nowritemesh"] = True
    if rng.random() < 0.15 and mode != "readfc":
        s["mass"] = "__AUTO__"  # filled at run time: one (modified) mass per atom of the primitive cell
    if cmd == "phonopy-load" and not has_born and "mass" not in s and mode not in ("pdos", "writefc") and not prev_wrote_fc and rng.random() < 0.25:
        # (not after a write-fc step: compact force constants written for the yaml's primitive cell are no input for another one)
        # the primitive axes stated on the command line / in the configuration file override those recorded in the input yaml
        s["pa"] = "P"
    return dict(mode=mode, cmd=cmd, settings=s)


def gen_spec(seed, index, tier):
    rng = core.rng_of(seed, "c18")
    names = ["nacl", "nacl_prim", "cscl", "hcp", "bct", "wurtzite", "si", "rutile", "ortho_c", "mono", "rhombo_hex", "perovskite"]
    w = World.generate(seed, names=names, max_atoms=rng.choice([8, 16, 24]))
    smat = np.array(w.supercell_matrix)
    if np.count_nonzero(smat - np.diag(np.diag(smat))) == 0:
        dim = _fmt(np.diag(smat))
    else:
        dim = _fmt(smat.ravel())
    pa = w.primitive_matrix if isinstance(w.primitive_matrix, str) else "P"
    calc = "qe" if rng.random() < 0.3 else "vasp"
    disp = {"create_displacements": True, "dim": dim, "pa": pa.upper() if pa != "auto" else "AUTO", "cell": CELLFILE[calc]}
    # the same primitive axes spelled out as nine fractions (the documented alternative to the letter)
    PA_FRACTIONS = {"P": "1 0 0  0 1 0  0 0 1", "F": "0 1/2 1/2  1/2 0 1/2  1/2 1/2 0", "I": "-1/2 1/2 1/2  1/2 -1/2 1/2  1/2 1/2 -1/2",
                    "A": "1 0 0  0 1/2 -1/2  0 1/2 1/2", "C": "1/2 1/2 0  -1/2 1/2 0  0 0 1", "R": "2/3 -1/3 -1/3  1/3 1/3 -2/3  1/3 1/3 1/3"}
    pa_text = disp["pa"]
    if disp["pa"] in PA_FRACTIONS and rng.random() < 0.3:
        pa_text = PA_FRACTIONS[disp["pa"]]
    pa_letter = disp["pa"]
    disp["pa"] = pa_text
    if rng.random() < 0.5:
        disp["amplitude"] = rng.choice([0.02, 0.03])
    if rng.random() < 0.3:
        disp["pm"] = True
    if rng.random() < 0.3:
        disp["nodiag"] = True
    has_born = bool(w.nac_method) and rng.random() < 0.8
    steps = []
    wrote_fc = False
    stale_planned = index % 2 == 1
    random_disp = rng.random() < 0.1
    if random_disp:
        # random displacements of all atoms with a stated seed: the workflow ends after this step (no solver for such datasets here)
        disp.pop("pm", None)
        disp.pop("nodiag", None)
        disp["rd"] = rng.choice([2, 3])
        disp["random_seed"] = rng.choice([0, 0, 17, 12345])
    for _ in range(0 if random_disp else rng.randint(1, 3)):
        st = gen_post_step(rng, w, has_born, wrote_fc, force_cmd=("phonopy" if stale_planned else None))
        if st["mode"] == "writefc":
            wrote_fc = st["settings"].get("writefc_format", st["settings"].get("fc_format", "text"))
        if st["mode"] == "readfc" and wrote_fc == "hdf5":
            st["settings"][rng.choice(["readfc_format", "fc_format"])] = "hdf5"
        steps.append(st)
    all_names = sorted(set(disp) | set(k for st in steps for k in st["settings"]) | {"dim", "pa", "cell"})
    routes = {n: rng.choice(["tag", "opt"]) for n in all_names}
    # settings that only act together are most interesting when they arrive by different routes (own PRNG: the main stream is untouched)
    brng = core.rng_of(seed, "c18-route-bias")
    if "q_direction" in routes and "nac" in routes and brng.random() < 0.6:
        routes["q_direction"], routes["nac"] = brng.choice([("tag", "opt"), ("opt", "tag")])
    stale = []
    if index % 2 == 1:
        stale = sorted(rng.sample(["BORN", "FORCE_CONSTANTS"], rng.randint(1, 2)))
    return dict(seed=seed, world=w.spec, calc=calc, born_factor=(rng.choice([14.400, 14.5]) if (has_born and calc == "vasp" and rng.random() < 0.4) else None),
                dim=dim, pa=pa_letter, pa_text=pa_text, disp=disp, steps=steps, routes=routes, has_born=has_born, stale=stale, save_params=rng.random() < 0.3)


# ------------------------------------------------------------------ running the CLI in a fresh process
def child_cli(args):
    path, cmd, conf_text, argv, positional = args
    os.chdir(path)
    if cmd == "phonopy":
        from phonopy.scripts.phonopy import run
    else:
        from phonopy.scripts.phonopy_load import run
    full = [cmd]
    if conf_text.strip():
        with open("settings.conf", "w") as f:
            f.write(conf_text)
        if cmd == "phonopy":
            full.append("settings.conf")
        else:
            full += ["--config", "settings.conf"]
    full += list(positional) + list(argv)
    old = sys.argv
    sys.argv = full
    buf = io.StringIO()
    code = 0
    exc = None
    try:
        with contextlib.redirect_stdout(buf):
            run()
    except SystemExit as e:
        code = e.code if isinstance(e.code, int) else (0 if e.code is None else 1)
    except Exception as e:  # noqa: BLE001
        import traceback

        code, exc = -1, traceback.format_exc()[-1500:]
    finally:
        sys.argv = old
    # the caller kills this process with os._exit right after this return (no interpreter shutdown, no atexit)
    return dict(code=code, exc=exc, stdout=buf.getvalue()[-1500:], argv=full)


# ------------------------------------------------------------------ library reference (child process, same directory content)
def _ref_object(spec, s, path, cmd):
    from phonopy import Phonopy
    from phonopy.file_IO import parse_BORN, parse_FORCE_CONSTANTS, parse_FORCE_SETS, read_force_constants_hdf5
    from phonopy.interface.calculator import get_default_physical_units
    from phonopy.interface.phonopy_yaml import PhonopyYaml
    from phonopy.interface.calculator import read_crystal_structure

    calc = spec.get("calc", "vasp")
    units = get_default_physical_units(calc)
    load_mode = cmd == "phonopy-load"
    kw = dict(factor=float(s.get("factor", units["factor"])), symprec=float(s.get("tolerance", 1e-5)), is_symmetry=not s.get("nosym", False), log_level=0)
    if load_mode:
        # the corresponding library call of `phonopy-load FILE` is phonopy.load(FILE): cell, matrices, masses and the NAC
        # unit factor are taken as printed in that file
        import phonopy

        nac = os.path.exists("BORN") and not s.get("nonac", False)
        sym = not s.get("no_sym_fc", False)
        lkw = dict(is_nac=nac, symmetrize_fc=sym, is_compact_fc=not s.get("full_fc", False), factor=kw["factor"], symprec=kw["symprec"], is_symmetry=kw["is_symmetry"], log_level=0)
        # no explicit file names unless --readfc names a format: like the command, load() then discovers FORCE_CONSTANTS /
        # force_constants.hdf5 (left by an earlier write-fc step of the same workflow) ahead of FORCE_SETS
        if s.get("readfc"):
            lkw["force_constants_filename"] = "force_constants.hdf5" if s.get("readfc_format", s.get("fc_format")) == "hdf5" else "FORCE_CONSTANTS"
        if "pa" in s:
            lkw["primitive_matrix"] = s["pa"]
        fc_from_file = bool(s.get("readfc")) or os.path.exists("FORCE_CONSTANTS") or os.path.exists("force_constants.hdf5")
        ph = phonopy.load("phonopy_disp.yaml", **lkw)
        if "mass" in s:
            ph.masses = [float(x) for x in s["mass"].split()]
        if fc_from_file and sym:
            ph.symmetrize_force_constants()
        if nac and "nac_method" in s:
            n = dict(ph.nac_params)
            n["method"] = s["nac_method"]
            ph.nac_params = n
        return ph, nac
    cell, _ = read_crystal_structure(CELLFILE[calc], interface_mode=calc)
    smat = [int(x) for x in spec["dim"].split()]
    smat = np.diag(smat) if len(smat) == 3 else np.reshape(smat, (3, 3))
    pa = spec["pa"]
    if "gv_delta_q" in s:
        kw["group_velocity_delta_q"] = float(s["gv_delta_q"])
    ph = Phonopy(cell, supercell_matrix=smat, primitive_matrix=(pa.lower() if pa == "AUTO" else pa), calculator=(None if calc == "vasp" else calc), **kw)
    nac = bool(s.get("nac", False))
    if nac and os.path.exists("BORN"):
        n = parse_BORN(ph.primitive, filename="BORN")
        if "factor" not in n:
            n["factor"] = units["nac_factor"]
        if "nac_method" in s:
            n["method"] = s["nac_method"]
        ph.nac_params = n
    if "mass" in s:
        ph.masses = [float(x) for x in s["mass"].split()]
    full = bool(s.get("full_fc", False))
    if s.get("readfc"):
        if s.get("readfc_format", s.get("fc_format")) == "hdf5":
            fc = read_force_constants_hdf5("force_constants.hdf5", p2s_map=ph.primitive.p2s_map)
        else:
            fc = parse_FORCE_CONSTANTS("FORCE_CONSTANTS", p2s_map=ph.primitive.p2s_map)
        ph.force_constants = fc
    else:
        ph.dataset = parse_FORCE_SETS(natom=len(ph.supercell), filename="FORCE_SETS")
        ph.produce_force_constants(calculate_full_force_constants=full)
    if s.get("fc_symmetry", False):
        ph.symmetrize_force_constants()
    return ph, nac


def child_reference(args):
    spec, step, path = args
    os.chdir(path)
    s = step["settings"]
    mode = step["mode"]
    ph, nac_used = _ref_object(spec, s, path, step["cmd"])
    out = {"fc": np.array(ph.force_constants), "nac_used": bool(nac_used)}
    mesh = [int(x) for x in s["mesh"].split()] if "mesh" in s else None
    mkw = dict(is_gamma_center=bool(s.get("gc", False)), is_mesh_symmetry=not s.get("nomeshsym", False))
    if "mp_shift" in s:
        mkw["shift"] = [0.5 if x in ("1/2", "0.5") else 0.0 for x in s["mp_shift"].split()]
    if mode in ("mesh", "readfc"):
        ph.run_mesh(mesh, with_eigenvectors=bool(s.get("eigvecs")), with_group_velocities=bool(s.get("gv")), **mkw)
        d = ph.get_mesh_dict()
        out.update(q=d["qpoints"], w=d["weights"], freq=d["frequencies"], gv=d["group_velocities"], vecs=d["eigenvectors"])
    elif mode == "tdispmat":
        ph.run_mesh(mesh, with_eigenvectors=True, is_mesh_symmetry=False, is_gamma_center=mkw["is_gamma_center"], shift=mkw.get("shift"))
        ph.run_thermal_displacement_matrices(t_min=s.get("tmin", 0), t_max=s.get("tmax", 1000), t_step=s.get("tstep", 10), freq_min=s.get("fmin"), freq_max=s.get("fmax"))
        d = ph.get_thermal_displacement_matrices_dict()
        m = np.array(d["thermal_displacement_matrices"])
        # the six printed components per atom: xx yy zz yz xz xy (real parts)
        six = np.stack([m[..., 0, 0], m[..., 1, 1], m[..., 2, 2], m[..., 1, 2], m[..., 0, 2], m[..., 0, 1]], axis=-1).real
        out.update(T=d["temperatures"], tdm=six)
    elif mode == "tdisp":
        ph.run_mesh(mesh, with_eigenvectors=True, is_mesh_symmetry=False, is_gamma_center=mkw["is_gamma_center"], shift=mkw.get("shift"))
        ph.run_thermal_displacements(t_min=s.get("tmin", 0), t_max=s.get("tmax", 1000), t_step=s.get("tstep", 10), freq_min=s.get("fmin"), freq_max=s.get("fmax"),
                                     direction=([float(x) for x in s["projection_direction"].split()] if "projection_direction" in s else None))
        d = ph.get_thermal_displacements_dict()
        out.update(T=d["temperatures"], tdisp=d["thermal_displacements"])
    elif mode in ("band", "band_mesh"):
        from phonopy.phonon.band_structure import get_band_qpoints

        if "," in s["band"]:
            from phonopy.phonon.band_structure import get_band_qpoints_and_path_connections

            sections = [np.array([float(x) for x in sec.split()]).reshape(-1, 3) for sec in s["band"].split(",")]
            bands, conns = get_band_qpoints_and_path_connections(sections, npoints=int(s.get("band_points", 51)))
            ph.run_band_structure(bands, with_eigenvectors=bool(s.get("eigvecs")), with_group_velocities=bool(s.get("gv")), is_band_connection=bool(s.get("band_connection")),
                                  path_connections=conns, labels=(s["band_labels"].split() if "band_labels" in s else None))
            d = ph.get_band_structure_dict()
            out.update(q=np.concatenate(d["qpoints"]), freq=np.concatenate(d["frequencies"]),
                       gv=None if d.get("group_velocities") is None else np.concatenate(d["group_velocities"]))
            ph.write_yaml_band_structure(filename="reference_band.yaml")
            yref = _yaml("reference_band.yaml")
            os.remove("reference_band.yaml")
            out["band_labels"] = yref.get("labels")
            out["segment_nqpoint"] = yref.get("segment_nqpoint")
            probes_ = None
            out["D"] = np.array([ph.get_dynamical_matrix_at_q(q) for q in [[0.13, 0.27, -0.31], [0.5, 0, 0]]])
            return out
        pts = np.array([float(x) for x in s["band"].split()]).reshape(-1, 3)
        if s.get("band_const_interval"):
            bands = get_band_qpoints([pts], npoints=int(s.get("band_points", 51)), rec_lattice=np.linalg.inv(ph.primitive.cell))
        else:
            bands = get_band_qpoints([pts], npoints=int(s.get("band_points", 51)))
        ph.run_band_structure(bands, with_eigenvectors=bool(s.get("eigvecs")), with_group_velocities=bool(s.get("gv")), is_band_connection=bool(s.get("band_connection")))
        d = ph.get_band_structure_dict()
        out.update(q=np.concatenate(d["qpoints"]), freq=np.concatenate(d["frequencies"]),
                   gv=None if d.get("group_velocities") is None else np.concatenate(d["group_velocities"]))
        if mode == "band_mesh":
            ph.run_mesh(mesh, **mkw)
            dm_ = ph.get_mesh_dict()
            out.update(mesh_q=dm_["qpoints"], mesh_w=dm_["weights"], mesh_freq=dm_["frequencies"])
    elif mode == "qpoints":
        qs = np.array([float(x) for x in s["qpoints"].split()]).reshape(-1, 3)
        qd = [float(x) for x in s["q_direction"].split()] if "q_direction" in s else None
        ph.run_qpoints(qs, with_eigenvectors=bool(s.get("eigvecs")), with_group_velocities=bool(s.get("gv")), with_dynamical_matrices=bool(s.get("writedm")), nac_q_direction=qd)
        d = ph.get_qpoints_dict()
        out.update(q=qs, freq=d["frequencies"], gv=d.get("group_velocities"), dm=d.get("dynamical_matrices"))
    elif mode in ("dos", "pdos"):
        kw = dict(sigma=s.get("sigma"), freq_min=s.get("fmin"), freq_max=s.get("fmax"), freq_pitch=s.get("fpitch"), use_tetrahedron_method=("sigma" not in s))
        if "dos_range" in s:
            kw["freq_min"], kw["freq_max"], kw["freq_pitch"] = [float(x) for x in s["dos_range"].split()]
        if mode == "dos":
            ph.run_mesh(mesh, **mkw)
            ph.run_total_dos(**kw)
            d = ph.get_total_dos_dict()
            out.update(x=d["frequency_points"], dos=d["total_dos"])
        else:
            ph.run_mesh(mesh, with_eigenvectors=True, is_mesh_symmetry=False, is_gamma_center=mkw["is_gamma_center"], shift=mkw.get("shift"))
            if "projection_direction" in s:
                kw["direction"] = [float(x) for x in s["projection_direction"].split()]
            ph.run_projected_dos(xyz_projection=bool(s.get("xyz_projection")), **kw)
            d = ph.get_projected_dos_dict()
            out.update(x=d["frequency_points"], pdos=d["projected_dos"])
    elif mode == "tprop":
        ph.run_mesh(mesh, **mkw)
        ph.run_thermal_properties(t_min=s.get("tmin", 0), t_max=s.get("tmax", 1000), t_step=s.get("tstep", 10), cutoff_frequency=s.get("cutoff_freq"), pretend_real=bool(s.get("pretend_real")))
        d = ph.get_thermal_properties_dict()
        out.update(T=d["temperatures"], F=d["free_energy"], S=d["entropy"], Cv=d["heat_capacity"])
    probes = [[0.13, 0.27, -0.31], [0.5, 0, 0]]
    out["D"] = np.array([ph.get_dynamical_matrix_at_q(q) for q in probes])
    return out


def child_reload(args):
    path, is_nac, symmetrize = args
    import phonopy

    os.chdir(path)
    ph = phonopy.load("phonopy.yaml", is_nac=is_nac, is_compact_fc=True, log_level=0, produce_fc=True, symmetrize_fc=symmetrize)
    probes = [[0.13, 0.27, -0.31], [0.5, 0, 0]]
    if ph.force_constants is None:
        return {"D": None}
    return {"D": np.array([ph.get_dynamical_matrix_at_q(q) for q in probes]), "nac": ph.nac_params is not None}


# ------------------------------------------------------------------ output parsing
def _yaml(fn):
    import yaml

    Loader = getattr(yaml, "CSafeLoader", yaml.SafeLoader)
    with open(fn) as f:
        return yaml.load(f, Loader=Loader)


def parse_outputs(path, step):
    """Numbers a step wrote, keyed like the reference."""
    import h5py

    s = step["settings"]
    mode = step["mode"]
    out = {}
    j = lambda f: os.path.join(path, f)  # noqa: E731
    if mode in ("mesh", "readfc"):
        if s.get("mesh_format") == "hdf5" or s.get("hdf5"):
            with h5py.File(j("mesh.hdf5"), "r") as f:
                out.update(q=f["qpoint"][:], w=f["weight"][:], freq=f["frequency"][:], gv=f["group_velocity"][:] if "group_velocity" in f else None, _dec=None)
        else:
            y = _yaml(j("mesh.yaml"))
            out["q"] = np.array([p["q-position"] for p in y["phonon"]])
            out["w"] = np.array([p["weight"] for p in y["phonon"]])
            out["freq"] = np.array([[b["frequency"] for b in p["band"]] for p in y["phonon"]])
            out["gv"] = np.array([[b["group_velocity"] for b in p["band"]] for p in y["phonon"]]) if "group_velocity" in y["phonon"][0]["band"][0] else None
            out["_dec"] = simfs.printed_decimals(open(j("mesh.yaml")).read())
    elif mode == "tdispmat":
        y = _yaml(j("thermal_displacement_matrices.yaml"))
        td = y["thermal_displacement_matrices"]
        out.update(T=np.array([t["temperature"] for t in td]), tdm=np.array([t["displacement_matrices"] for t in td]),
                   _dec=simfs.printed_decimals(open(j("thermal_displacement_matrices.yaml")).read()))
    elif mode == "tdisp":
        y = _yaml(j("thermal_displacements.yaml"))
        td = y["thermal_displacements"]
        out.update(T=np.array([t["temperature"] for t in td]), tdisp=np.array([np.ravel(t["displacements"]) for t in td]),
                   _dec=simfs.printed_decimals(open(j("thermal_displacements.yaml")).read()))
    elif mode in ("band", "band_mesh"):
        if mode == "band_mesh":
            if not os.path.exists(j("mesh.yaml")) or not os.path.exists(j("band.yaml")):
                raise FileNotFoundError("band+mesh mode must write band.yaml and mesh.yaml; present: %s" % sorted(f for f in os.listdir(path) if f.startswith(("band", "mesh"))))
            ym = _yaml(j("mesh.yaml"))
            out["mesh_q"] = np.array([p["q-position"] for p in ym["phonon"]])
            out["mesh_w"] = np.array([p["weight"] for p in ym["phonon"]])
            out["mesh_freq"] = np.array([[b["frequency"] for b in p["band"]] for p in ym["phonon"]])
        if s.get("band_format") == "hdf5" or s.get("hdf5"):
            with h5py.File(j("band.hdf5"), "r") as f:
                out.update(q=f["path"][:].reshape(-1, 3), freq=f["frequency"][:].reshape(-1, f["frequency"].shape[-1]),
                           gv=f["group_velocity"][:].reshape(-1, f["frequency"].shape[-1], 3) if "group_velocity" in f else None, _dec=None)
        else:
            y = _yaml(j("band.yaml"))
            out["q"] = np.array([p["q-position"] for p in y["phonon"]])
            out["freq"] = np.array([[b["frequency"] for b in p["band"]] for p in y["phonon"]])
            out["gv"] = np.array([[b["group_velocity"] for b in p["band"]] for p in y["phonon"]]) if "group_velocity" in y["phonon"][0]["band"][0] else None
            out["_dec"] = simfs.printed_decimals(open(j("band.yaml")).read())
            if "," in s.get("band", ""):
                out["band_labels"] = y.get("labels")
                out["segment_nqpoint"] = y.get("segment_nqpoint")
    elif mode == "qpoints":
        if s.get("qpoints_format") == "hdf5" or s.get("hdf5"):
            with h5py.File(j("qpoints.hdf5"), "r") as f:
                out.update(q=f["qpoint"][:], freq=f["frequency"][:], gv=f["group_velocity"][:] if "group_velocity" in f else None,
                           dm=f["dynamical_matrix"][:] if "dynamical_matrix" in f else None, _dec=None)
        else:
            y = _yaml(j("qpoints.yaml"))
            out["q"] = np.array([p["q-position"] for p in y["phonon"]])
            out["freq"] = np.array([[b["frequency"] for b in p["band"]] for p in y["phonon"]])
            out["gv"] = np.array([[b["group_velocity"] for b in p["band"]] for p in y["phonon"]]) if "group_velocity" in y["phonon"][0]["band"][0] else None
            if "dynamical_matrix" in y["phonon"][0]:
                dms = []
                for p in y["phonon"]:
                    m = np.array(p["dynamical_matrix"], dtype=float)
                    dms.append(m[:, 0::2] + 1j * m[:, 1::2])
                out["dm"] = np.array(dms)
            out["_dec"] = simfs.printed_decimals(open(j("qpoints.yaml")).read())
    elif mode == "dos":
        a = np.loadtxt(j("total_dos.dat"))
        out.update(x=a[:, 0], dos=a[:, 1], _dec={"dat": 10})
    elif mode == "pdos":
        a = np.loadtxt(j("projected_dos.dat"))
        out.update(x=a[:, 0], pdos=a[:, 1:].T, _dec={"dat": 10})
    elif mode == "tprop":
        y = _yaml(j("thermal_properties.yaml"))
        tp = y["thermal_properties"]
        out.update(T=np.array([t["temperature"] for t in tp]), F=np.array([t["free_energy"] for t in tp]), S=np.array([t["entropy"] for t in tp]),
                   Cv=np.array([t["heat_capacity"] for t in tp]), _dec=simfs.printed_decimals(open(j("thermal_properties.yaml")).read()))
    elif mode == "writefc":
        from phonopy.file_IO import parse_FORCE_CONSTANTS, read_force_constants_hdf5

        if s.get("writefc_format", s.get("fc_format")) == "hdf5":
            fc_, unit_ = read_force_constants_hdf5(j("force_constants.hdf5"), return_physical_unit=True)
            out.update(fc=fc_, fc_unit=unit_, _dec=None)
        else:
            out.update(fc=parse_FORCE_CONSTANTS(j("FORCE_CONSTANTS")), _dec={"fc": 15})
    return out


def cmp_num(name, got, ref, dec, bad):
    if ref is None and got is None:
        return
    if got is None or ref is None:
        bad.append((name, "present on one side only"))
        return
    got, ref = np.asarray(got), np.asarray(ref)
    if got.dtype.kind in "USO":
        # a yaml file prints "nan" / "inf" as bare words, which the yaml loader hands back as strings
        try:
            got = np.array([float(x) for x in got.ravel()], dtype=float).reshape(got.shape)
        except (TypeError, ValueError):
            bad.append((name, "not numbers: %r" % got.ravel()[:3].tolist()))
            return
    if got.shape != ref.shape:
        bad.append((name, "shape %s vs %s" % (got.shape, ref.shape)))
        return
    tol = 0.0 if dec is None else 0.5000001 * 10.0 ** (-dec)
    if np.iscomplexobj(got) or np.iscomplexobj(ref):  # real and imaginary parts are printed separately
        got = np.stack([np.real(got), np.imag(got)])
        ref = np.stack([np.real(ref), np.imag(ref)])
    if got.dtype.kind == "f" and ref.dtype.kind == "f" and np.isnan(ref).any():
        # the library itself reports "not a number" there (overflow in the thermal functions for h nu >> k T): nothing to compare
        keep = ~np.isnan(ref)
        got, ref = got[keep], ref[keep]
    d = float(np.max(np.abs(got - ref))) if got.size else 0.0
    if not d <= tol + 1e-13 * float(np.max(np.abs(ref)) if ref.size else 0):
        bad.append((name, "maxdiff %.3e > printed precision %.1e" % (d, tol)))


def cmp_freq(name, got, ref, dec, bad):
    """Frequencies: printed precision, except that modes within eigenvalue rounding noise of zero (acoustic modes at Gamma,
    f = sqrt(eig) turns 1e-16 into 1e-8 THz) are compared on the eigenvalue scale."""
    if got is None or ref is None or np.asarray(got).shape != np.asarray(ref).shape:
        return cmp_num(name, got, ref, dec, bad)
    got, ref = np.asarray(got, dtype=float), np.asarray(ref, dtype=float)
    tol = 0.0 if dec is None else 0.5000001 * 10.0 ** (-dec)
    d = np.abs(got - ref)
    e = np.abs(np.sign(got) * got * got - np.sign(ref) * ref * ref)
    floor = 1e-12 * float(np.max(ref * ref)) if ref.size else 0.0
    ok = (d <= tol + 1e-13 * np.abs(ref)) | (e <= floor)
    if not ok.all():
        bad.append((name, "maxdiff %.3e > printed precision %.1e (and above the eigenvalue noise floor)" % (float(d[~ok].max()), tol)))


# ------------------------------------------------------------------ directory comparison for the route swap
_SKIP_FILES = {"settings.conf"}


def dir_signature(path):
    sig = {}
    for f in sorted(os.listdir(path)):
        p = os.path.join(path, f)
        if f in _SKIP_FILES or os.path.isdir(p):
            continue
        if f.endswith(".hdf5"):
            import h5py

            with h5py.File(p, "r") as h:
                sig[f] = core.digest({k: np.array(h[k][()]) if h[k].dtype.kind not in "OSU" else str(h[k][()]) for k in sorted(h.keys())})
        else:
            text = open(p, errors="replace").read()
            if f == "phonopy.yaml" or f == "phonopy_disp.yaml":
                # drop the echo of how settings were given (configuration block): it is the route, not the effect
                text = re.sub(r"  configuration:\n(    .*\n)*", "", text)
            sig[f] = core.digest(text)
    return sig


# ------------------------------------------------------------------ one workflow
def execute(spec):
    w = World(spec["world"])
    violations = []
    faults = {}
    probes = {}
    log = []
    steps_d = {"cli_invocations": 0, "process_restarts": 0, "peer_jobs": 0, "post_steps_completed": 0}
    routes = spec["routes"]
    calc = spec.get("calc", "vasp")
    L, Funit = peers.UNITS[calc]
    swapped = {k: ("opt" if v == "tag" else "tag") for k, v in routes.items()}
    tag_hits = {}

    def V(cls, site, **detail):
        violations.append({"class": cls, "site": site, "detail": detail})

    def sub(fn, arg):
        steps_d["process_restarts"] += 1
        o = core.call_isolated(fn, arg, timeout=600.0)
        if o.kind != "ok":
            raise RuntimeError("sub-process %s: %s %s" % (fn.__name__, o.kind, str(o.detail)[-1500:]))
        return o.value

    def run_cli(path, cmd, settings, rts, positional=()):
        conf, argv = render(settings, rts)
        steps_d["cli_invocations"] += 1
        for k in settings:
            tag_hits[TABLE[k][0] + ":" + rts.get(k, "opt")] = tag_hits.get(TABLE[k][0] + ":" + rts.get(k, "opt"), 0) + 1
        return sub(child_cli, (path, cmd, conf, argv, list(positional)))

    with simfs.RunDir("c18a-") as A, simfs.RunDir("c18b-") as B, contextlib.ExitStack() as refdirs:
        # ---- the user's POSCAR (and BORN)
        from phonopy.structure.atoms import PhonopyAtoms as _PA

        c0 = w.unitcell()
        cell = _PA(symbols=c0.symbols, cell=np.array(c0.cell) / L, scaled_positions=c0.scaled_positions)
        os.chdir(A.path)
        with contextlib.redirect_stdout(io.StringIO()):
            peers.write_structure(calc, CELLFILE[calc], cell, peers.structure_info(calc, cell.symbols), author=True)
        if spec["has_born"]:
            from phonopy import Phonopy
            from phonopy.file_IO import write_BORN

            tmp = Phonopy(cell, supercell_matrix=w.supercell_matrix, primitive_matrix=w.primitive_matrix, log_level=0)
            n = w.nac_params(tmp.primitive)
            if n is not None:
                write_BORN(tmp.primitive, n["born"], n["dielectric"], filename="BORN")
                if spec.get("born_factor"):
                    # a BORN file that states its own unit conversion factor on the first line (documented format)
                    lines = open("BORN").read().split("\n")
                    lines[0] = "%s" % spec["born_factor"]
                    with open("BORN", "w") as f_:
                        f_.write("\n".join(lines))
        os.chdir("/")
        shutil.copytree(A.path, B.path, dirs_exist_ok=True)
        # ---- step 1: create displacements, both routes
        rA = run_cli(A.path, "phonopy", spec["disp"], routes, CALC_OPT[calc])
        rB = run_cli(B.path, "phonopy", spec["disp"], swapped, CALC_OPT[calc])
        if rA["code"] != 0 or rB["code"] != 0 or not os.path.exists(os.path.join(A.path, "phonopy_disp.yaml")):
            if (rA["code"] != 0) != (rB["code"] != 0):
                V("route-swap-differs", "disp:exit-status", a=rA["code"], b=rB["code"], argv_a=rA["argv"], argv_b=rB["argv"], out_a=rA["stdout"][-300:], out_b=rB["stdout"][-300:])
            else:
                V("workflow-step-failed", "disp", code=rA["code"], exc=rA["exc"], stdout=rA["stdout"][-400:], argv=rA["argv"])
            return _result(spec, violations, faults, probes, log, steps_d, tag_hits, False)
        sa, sb = dir_signature(A.path), dir_signature(B.path)
        for f in sorted(set(sa) | set(sb)):
            if sa.get(f) != sb.get(f):
                V("route-swap-differs", "disp:%s" % re.sub(r"\d+", "N", f), file=f, argv_a=rA["argv"], argv_b=rB["argv"])
        # library reference for the displacement step
        os.chdir(A.path)
        try:
            from phonopy import Phonopy
            from phonopy.interface.phonopy_yaml import PhonopyYaml
            from phonopy.interface.calculator import get_default_displacement_distance, read_crystal_structure

            d = spec["disp"]
            ucell, _ = read_crystal_structure(CELLFILE[calc], interface_mode=calc)
            smat = [int(x) for x in spec["dim"].split()]
            smat = np.diag(smat) if len(smat) == 3 else np.reshape(smat, (3, 3))
            ref = Phonopy(ucell, supercell_matrix=smat, primitive_matrix=(spec["pa"].lower() if spec["pa"] == "AUTO" else spec["pa"]), log_level=0)
            if "rd" in d:
                ref.generate_displacements(distance=float(d.get("amplitude", get_default_displacement_distance(calc))), number_of_snapshots=int(d["rd"]), random_seed=int(d["random_seed"]))
                py = PhonopyYaml()
                py.read("phonopy_disp.yaml")
                got_d = None if py.dataset is None or "displacements" not in py.dataset else np.array(py.dataset["displacements"])
                want_d = np.array(ref.dataset["displacements"])
                if got_d is None or got_d.shape != want_d.shape:
                    V("cli-differs-from-library", "disp:random-displacements:shape", cli=None if got_d is None else list(got_d.shape), lib=list(want_d.shape))
                elif float(np.max(np.abs(got_d - want_d))) > 1e-15:
                    V("cli-differs-from-library", "disp:random-displacements", maxdiff=float(np.max(np.abs(got_d - want_d))), random_seed=d["random_seed"], argv=rA["argv"])
                probes["random_displacement_step"] = 1
                return _result(spec, violations, faults, probes, log, steps_d, tag_hits, True)
            ref.generate_displacements(distance=float(d.get("amplitude", get_default_displacement_distance(calc))), is_plusminus=(True if d.get("pm") else "auto"), is_diagonal=not d.get("nodiag", False))
            py = PhonopyYaml()
            py.read("phonopy_disp.yaml")
            ds = py.dataset
            rd = ref.dataset
            if len(ds["first_atoms"]) != len(rd["first_atoms"]) or any(a["number"] != b["number"] for a, b in zip(ds["first_atoms"], rd["first_atoms"])):
                V("cli-differs-from-library", "disp:displaced-atoms", cli=[a["number"] for a in ds["first_atoms"]], lib=[b["number"] for b in rd["first_atoms"]])
            else:
                dd = max(float(np.max(np.abs(np.array(a["displacement"]) - np.array(b["displacement"])))) for a, b in zip(ds["first_atoms"], rd["first_atoms"]))
                if dd > 0.5000001e-16 + 1e-15:
                    V("cli-differs-from-library", "disp:displacements", maxdiff=dd)
            sc = py.supercell
            ndisp = len(ds["first_atoms"])
            # POSCAR-xxx must be the library's displaced supercells (up to the stable grouping by species)
            outputs = []
            sc_A = _PA(symbols=sc.symbols, cell=np.array(sc.cell) * L, scaled_positions=sc.scaled_positions)
            fc_model = w.force_constants(sc_A)
            species_order = list(dict.fromkeys(ucell.symbols))
            for i, cwd in enumerate(ref.supercells_with_displacements):
                fn = {"vasp": "POSCAR-%03d", "qe": "supercell-%03d.in"}[calc] % (i + 1)
                peers.fix_structure_file(calc, fn, natom=len(sc), ntyp=len(set(sc.symbols)), species=species_order)
                if calc == "qe":
                    shutil.copy(fn, os.path.join(B.path, fn))  # the user-completed input, same in both directories
                rc, _ = peers.read_structure(calc, fn)
                from .check_c17 import same_crystal

                ok, how, _ = same_crystal(cwd.cell, cwd.scaled_positions, cwd.symbols, rc.cell, rc.scaled_positions, rc.symbols)
                if not ok:
                    V("cli-differs-from-library", "disp:POSCAR-N", file=fn, detail=how)
                    break
                F, perm = peers.harmonic_forces_for_file(rc, sc_A, fc_model, L)
                oname = {"vasp": "vasprun.xml-%03d", "qe": "pw-%03d.out"}[calc] % (i + 1)
                peers.write_force_output(calc, oname, rc, F, energy=-5.0 - i)
                outputs.append(oname)
                steps_d["peer_jobs"] += 1
            for f in outputs:
                shutil.copy(os.path.join(A.path, f), os.path.join(B.path, f))
        finally:
            os.chdir("/")
        if len(outputs) != ndisp:
            return _result(spec, violations, faults, probes, log, steps_d, tag_hits, False)
        # ---- step 2: collect forces (no tag equivalent: same invocation in both directories)
        pos = CALC_OPT[calc] + ["-f"] + outputs + (["--sp"] if spec["save_params"] else [])
        r2 = sub(child_cli, (A.path, "phonopy", "", [], pos))
        sub(child_cli, (B.path, "phonopy", "", [], pos))
        steps_d["cli_invocations"] += 2
        have = "phonopy_params.yaml" if spec["save_params"] else "FORCE_SETS"
        if r2["code"] != 0 or not os.path.exists(os.path.join(A.path, have)):
            V("workflow-step-failed", "collect", code=r2["code"], exc=r2["exc"], stdout=r2["stdout"][-400:])
            return _result(spec, violations, faults, probes, log, steps_d, tag_hits, False)
        if spec["save_params"]:
            # the rest of the workflow uses FORCE_SETS; produce it from the saved params through the library writer
            for P in (A.path, B.path):
                os.chdir(P)
                try:
                    import phonopy as _ph
                    from phonopy.file_IO import write_FORCE_SETS

                    write_FORCE_SETS(_ph.load("phonopy_params.yaml", produce_fc=False, log_level=0).dataset)
                finally:
                    os.chdir("/")
            probes["collect_with_save_params"] = 1
        from phonopy.file_IO import parse_FORCE_SETS

        dsf = parse_FORCE_SETS(natom=len(sc), filename=os.path.join(A.path, "FORCE_SETS"))
        errs = []
        for dsp in dsf["first_atoms"]:
            u = np.zeros((len(sc), 3))
            u[dsp["number"]] = np.array(dsp["displacement"]) * L
            errs.append(float(np.max(np.abs(-np.einsum("ijab,jb->ia", fc_model, u) / Funit - np.array(dsp["forces"])))))
        if max(errs) > 2e-9 * max(1.0, float(np.max(np.abs(fc_model)))):
            V("cli-differs-from-library", "collect:FORCE_SETS", max_err=max(errs))
        # ---- stale files of an unrelated calculation
        if spec["stale"]:
            os.chdir(A.path)
            try:
                from phonopy.file_IO import write_FORCE_CONSTANTS

                for name in spec["stale"]:
                    if name == "FORCE_CONSTANTS":
                        write_FORCE_CONSTANTS(fc_model * 0.5 / peers.fc_unit(calc))
                        faults["stale_file:FORCE_CONSTANTS"] = 1
                    elif name == "BORN" and not spec["has_born"] and CRYSTALS[w.name].get("nac"):
                        from phonopy import Phonopy
                        from phonopy.file_IO import write_BORN

                        tmp = Phonopy(cell, supercell_matrix=w.supercell_matrix, primitive_matrix=w.primitive_matrix, log_level=0)
                        w2 = World(dict(spec["world"], nac="gonze"))
                        n = w2.nac_params(tmp.primitive)
                        write_BORN(tmp.primitive, n["born"], n["dielectric"], filename="BORN")
                        faults["stale_file:BORN"] = 1
            finally:
                os.chdir("/")
            for name in spec["stale"]:
                if os.path.exists(os.path.join(A.path, name)):
                    shutil.copy(os.path.join(A.path, name), os.path.join(B.path, name))
        # ---- post-processing steps
        last_ref = None
        last_mode = None
        last_sym = False
        prim_symbols = list(py.primitive.symbols)
        for k, step in enumerate(spec["steps"]):
            s = dict(step["settings"])
            if s.get("mass") == "__AUTO__":
                from phonopy.structure.atoms import atom_data, symbol_map

                s["mass"] = " ".join("%.4f" % (atom_data[symbol_map[x]][3] * (1.25 if i_ == 0 or x == prim_symbols[0] else 0.9)) for i_, x in enumerate(prim_symbols))
            mode = step["mode"]
            cmd = step["cmd"]
            stale_fc = os.path.exists(os.path.join(A.path, "FORCE_CONSTANTS")) and "stale_file:FORCE_CONSTANTS" in faults
            stale_born = "stale_file:BORN" in faults
            if mode == "readfc" and stale_fc:
                continue
            if cmd == "phonopy":
                full = dict(s, dim=spec["dim"], pa=spec.get("pa_text", spec["pa"]), cell=CELLFILE[calc])
                positional = list(CALC_OPT[calc])
            else:
                full = dict(s, fc_calc="traditional")
                positional = ["phonopy_disp.yaml"]
            step_eff = dict(step, cmd=cmd, settings=s)
            # the library reference must see the directory as it was BEFORE the step (a write-fc step overwrites files that
            # the next discovery would read)
            mesh_before = any(os.path.exists(os.path.join(A.path, f_)) for f_ in ("mesh.yaml", "mesh.hdf5"))
            refdir = refdirs.enter_context(simfs.RunDir("c18r-"))
            shutil.copytree(A.path, refdir.path, dirs_exist_ok=True)
            # verbosity must not change any file: one of the two invocations is made chattier / quieter
            vflag = [[], [], ["-v"], ["-q"]][(spec["seed"] + k) % 4]
            rA = run_cli(A.path, cmd, full, routes, positional + vflag)
            rB = run_cli(B.path, cmd, full, swapped, positional)
            if vflag:
                faults["verbosity:" + vflag[0]] = faults.get("verbosity:" + vflag[0], 0) + 1
            label = "%s[%s]" % (mode, cmd)
            if rA["code"] != 0 or rB["code"] != 0:
                if (rA["code"] != 0) != (rB["code"] != 0):
                    V("route-swap-differs", "%s:exit-status" % label, a=rA["code"], b=rB["code"], argv_a=rA["argv"], argv_b=rB["argv"], out_a=rA["stdout"][-400:], out_b=rB["stdout"][-400:], exc_a=rA["exc"], exc_b=rB["exc"])
                else:
                    # both routes fail alike: a faithful front-end fails where the library call itself fails on this input
                    lib_error = None
                    try:
                        sub(child_reference, (spec, step_eff, refdir.path))
                    except RuntimeError as e:
                        lib_error = str(e)[-300:]
                    finally:
                        shutil.rmtree(refdir.path, ignore_errors=True)
                    # only the one library refusal observed on the unchanged tree is excused (DESIGN section 10, observations); any
                    # other step that fails in both front-end and library is still reported: a workflow that worked must keep working
                    excused = (lib_error is not None and mode == "tdispmat" and "AssertionError" in (rA["exc"] or "") and "thermal_displacement.py" in (rA["exc"] or ""))
                    if not excused:
                        V("workflow-step-failed", label, code=rA["code"], exc=rA["exc"], stdout=rA["stdout"][-500:], argv=rA["argv"])
                    else:
                        probes["step_fails_in_the_library_call_too:%s" % mode] = probes.get("step_fails_in_the_library_call_too:%s" % mode, 0) + 1
                        log.append(("both-fail", mode))
                break
            sa, sb = dir_signature(A.path), dir_signature(B.path)
            diverged = False
            for f in sorted(set(sa) | set(sb)):
                if sa.get(f) != sb.get(f):
                    V("route-swap-differs", "%s:%s" % (label, f), argv_a=rA["argv"], argv_b=rB["argv"], settings=s)
                    diverged = True
            if diverged:
                break  # the two directories no longer hold the same history: later steps would only echo this difference
            # refinement against the library
            try:
                ref = sub(child_reference, (spec, step_eff, refdir.path))
            except RuntimeError as e:
                V("reference-failed", label, error=str(e)[-600:])
                break
            finally:
                shutil.rmtree(refdir.path, ignore_errors=True)
            try:
                got = parse_outputs(A.path, step_eff)
            except Exception as e:  # noqa: BLE001
                V("cli-differs-from-library", "%s:output-unreadable:%s" % (label, type(e).__name__), error=str(e)[:300], files=sorted(os.listdir(A.path)))
                break
            dec = got.pop("_dec", None)
            bad = []
            dget = (lambda key, default=None: None if dec is None else dec.get(key, default))
            stale_tag = "|stale-files-present" if faults else ""
            if mode == "tdispmat":
                cmp_num("temperature", got["T"], ref["T"], dget("temperature", 7), bad)
                cmp_num("thermal_displacement_matrices", got["tdm"], ref["tdm"], 5, bad)
            if mode == "tdisp":
                cmp_num("temperature", got["T"], ref["T"], dget("temperature", 7), bad)
                cmp_num("thermal_displacements", got["tdisp"], np.asarray(ref["tdisp"]).reshape(np.asarray(got["tdisp"]).shape) if np.asarray(ref["tdisp"]).size == np.asarray(got["tdisp"]).size else ref["tdisp"], dget("displacements", 7), bad)
            if mode == "band" and "segment_nqpoint" in ref and "segment_nqpoint" in got:  # (band.yaml; the hdf5 layout has no such block)
                if got.get("band_labels") != ref.get("band_labels"):
                    bad.append(("band_labels", "band.yaml has %r, the library writes %r" % (got.get("band_labels"), ref.get("band_labels"))))
                if got.get("segment_nqpoint") != ref.get("segment_nqpoint"):
                    bad.append(("segment_nqpoint", "band.yaml has %r, the library writes %r" % (got.get("segment_nqpoint"), ref.get("segment_nqpoint"))))
            if mode == "band_mesh":
                cmp_num("mesh:q-position", got.get("mesh_q"), ref.get("mesh_q"), 7, bad)
                cmp_freq("mesh:frequency", got.get("mesh_freq"), ref.get("mesh_freq"), 10, bad)
            if mode in ("mesh", "readfc", "band", "qpoints", "band_mesh"):
                cmp_num("q-position", got.get("q"), ref.get("q"), dget("q-position", 7), bad)
                gf, rf = got.get("freq"), ref.get("freq")
                if s.get("band_connection") and gf is not None and rf is not None and np.asarray(gf).shape == np.asarray(rf).shape:
                    # the connection order hinges on eigenvector overlaps of (near-)degenerate modes, i.e. on rounding noise:
                    # what must agree is the per-q set of frequencies
                    gf, rf = np.sort(np.asarray(gf), axis=-1), np.sort(np.asarray(rf), axis=-1)
                cmp_freq("frequency", gf, rf, dget("frequency", 10), bad)
                if s.get("gv") and not s.get("band_connection"):
                    cmp_num("group_velocity", got.get("gv"), ref.get("gv"), dget("group_velocity", 7), bad)
                if mode in ("mesh", "readfc"):
                    cmp_num("weight", got.get("w"), ref.get("w"), 0 if dec is not None else None, bad)
                if mode == "qpoints" and s.get("writedm"):
                    cmp_num("dynamical_matrix", got.get("dm"), ref.get("dm"), dget("dynamical_matrix", 10), bad)
            elif mode == "dos":
                cmp_num("frequency_points", got["x"], ref["x"], 10, bad)
                cmp_num("total_dos", got["dos"], ref["dos"], 10, bad)
            elif mode == "pdos":
                cmp_num("frequency_points", got["x"], ref["x"], 10, bad)
                cmp_num("projected_dos", got["pdos"], ref["pdos"], 10, bad)
            elif mode == "tprop":
                cmp_num("temperature", got["T"], ref["T"], dget("temperature", 7), bad)
                cmp_num("free_energy", got["F"], ref["F"], dget("free_energy", 7), bad)
                cmp_num("entropy", got["S"], ref["S"], dget("entropy", 7), bad)
                cmp_num("heat_capacity", got["Cv"], ref["Cv"], dget("heat_capacity", 7), bad)
            elif mode == "writefc":
                a, b = got["fc"], ref["fc"]
                if "fc_unit" in got and got["fc_unit"] != FC_UNIT_LABEL[calc]:
                    bad.append(("force_constants.physical_unit", "file says %r, calculator %s works in %r" % (got["fc_unit"], calc, FC_UNIT_LABEL[calc])))
                if a.shape != b.shape:
                    bad.append(("force_constants", "shape %s vs %s (full_fc=%s)" % (a.shape, b.shape, s.get("full_fc", False))))
                else:
                    cmp_num("force_constants", a, b, 15 if dec else None, bad)
            for name, why in bad:
                V("cli-differs-from-library", "%s:%s%s" % (label, name, stale_tag), why=why, settings=s, argv=rA["argv"])
            if s.get("nowritemesh") and any(os.path.exists(os.path.join(A.path, f_)) for f_ in ("mesh.yaml", "mesh.hdf5")) and not mesh_before:
                V("cli-differs-from-library", "%s:WRITE_MESH=.FALSE.-ignored" % label, files=sorted(os.listdir(A.path)))
            steps_d["post_steps_completed"] += 1
            probes["mode:%s" % mode] = probes.get("mode:%s" % mode, 0) + 1
            probes["cmd:%s" % cmd] = probes.get("cmd:%s" % cmd, 0) + 1
            last_ref = ref
            last_mode = mode
            last_sym = (not s.get("no_sym_fc", False)) if cmd == "phonopy-load" else bool(s.get("fc_symmetry", False))
            log.append((label, sorted(s), core.digest({k: v for k, v in got.items() if v is not None})))
        # ---- the summary file reloads to the calculation that was run
        # (with a left-over FORCE_CONSTANTS in the directory load() takes it by its documented priority: not asserted then)
        fc_file_present = os.path.exists(os.path.join(A.path, "FORCE_CONSTANTS")) or os.path.exists(os.path.join(A.path, "force_constants.hdf5"))
        if fc_file_present:
            probes["reload_not_asserted:force_constants_file_in_directory"] = 1  # also one written by an earlier write-fc step with other symmetrisation settings
        if last_ref is not None and os.path.exists(os.path.join(A.path, "phonopy.yaml")) and not violations and not fc_file_present and last_mode != "readfc":
            rl = sub(child_reload, (A.path, bool(last_ref.get("nac_used")), last_sym))
            if rl["D"] is None:
                V("summary-reload-differs", "phonopy.yaml:no-force-constants", files=sorted(os.listdir(A.path)))
            else:
                sc_ = float(np.max(np.abs(last_ref["D"]))) or 1.0
                dd = float(np.max(np.abs(rl["D"] - last_ref["D"])))
                if dd > 1e-6 * sc_:
                    V("summary-reload-differs", "phonopy.yaml:D(q)%s" % ("|stale-files-present" if faults else ""), maxdiff=dd, scale=sc_, last_step=spec["steps"][-1], nac_on_reload=rl.get("nac"))
            probes["summary_reloaded"] = 1
    used = set(k for st in spec["steps"] for k in st["settings"]) | set(spec["disp"])
    both = {"tag", "opt"} <= set(routes.get(k) for k in used)
    nontrivial = (both and steps_d["post_steps_completed"] > 0) or bool(faults)
    return _result(spec, violations, faults, probes, log, steps_d, tag_hits, nontrivial)


def _result(spec, violations, faults, probes, log, steps_d, tag_hits, nontrivial):
    sig = core.digest([[(st["mode"], st["cmd"], sorted(st["settings"])) for st in spec["steps"]], sorted(spec["routes"].items()), spec["world"]["crystal"], sorted(faults), sorted(spec["disp"])])
    probes = dict(probes)
    probes["tag_route_hits"] = tag_hits
    return {
        "digest": core.digest([log, sorted((v["class"], v["site"]) for v in violations)]),
        "violations": violations, "sig": sig, "nontrivial": bool(nontrivial), "faults": faults, "probes": probes, "steps": steps_d,
        "sample": {"seed": spec["seed"], "crystal": spec["world"]["crystal"], "disp": spec["disp"], "steps": spec["steps"], "routes": spec["routes"], "stale": spec["stale"]},
    }


def shrink_candidates(spec):
    if len(spec["steps"]) > 1:
        for i in range(len(spec["steps"])):
            yield dict(spec, steps=spec["steps"][:i] + spec["steps"][i + 1:])
    if spec["stale"]:
        yield dict(spec, stale=[])
    for i, st in enumerate(spec["steps"]):
        for k in list(st["settings"]):
            if k in ("mesh", "band", "qpoints", "dos", "pdos", "tprop", "writefc", "readfc", "tdisp", "tdispmat", "cutoff_freq", "fmin", "band_points", "dos_range"):
                continue  # mode-defining or conditioning settings (removing a cut-off creates a different, ill-conditioned case)
            ns = dict(st["settings"])
            ns.pop(k)
            steps = list(spec["steps"])
            steps[i] = dict(st, settings=ns)
            yield dict(spec, steps=steps)
    for k in ("amplitude", "pm", "nodiag"):
        if k in spec["disp"]:
            d = dict(spec["disp"])
            d.pop(k)
            yield dict(spec, disp=d)
    if spec.get("save_params"):
        yield dict(spec, save_params=False)

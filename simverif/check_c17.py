"""C17 — calculator interfaces preserve the crystal and the physical units (claimed in part).

Deciding method: the multi-party force-collection protocol is simulated end to
end.  Parties: phonopy (each of its steps in a fresh forked process), N fake
calculator jobs (peers), and the run's directory as the only channel.  The peers
read the files phonopy wrote with phonopy's own reader and check the crystal in
place; their outputs are handed back through a faulty delivery (permuted,
duplicated, missing, extra, truncated, stale).  The same physical crystal is
pushed through every calculator's unit system and must come out with the same
THz frequencies (simulator's own CODATA constants as reference).
"""

from __future__ import annotations

import contextlib
import io
import os
import shutil

import numpy as np

from . import core, peers, simfs
from .world import World, CRYSTALS

PROP = "C17"
RUN_TIMEOUT = 900.0
SHRINK_BUDGET = 60
RULE = (
    "one evaluation = one protocol run for one calculator: author unit cell file -> phonopy reads, generates displacements, writes displaced "
    "supercells (process 1) -> peers read them with phonopy's reader, verify the crystal, write outputs -> seeded delivery faults -> phonopy "
    "builds FORCE_SETS or refuses (process 2) -> restarted process loads with calculator=K and reports THz frequencies (process 3); or, for "
    "calculators without an output peer, the unit-table run. distinct = distinct (calculator, crystal, supercell, NAC, fault kinds that "
    "fired); non-trivial = a delivery fault fired, or the cell is triclinic / species-interleaved / has positions outside [0,1), or a peer "
    "read a file written in a non-angstrom unit system"
)
ASSUMPTIONS = [
    "the simulator's own unit table (peers.UNITS: documented length and force unit per calculator) and CODATA-2018 constants are the reference; differences to phonopy's older CODATA values (~1e-8) are far below the 1e-5 tolerance",
    "peers author the pieces of input that phonopy's writers leave to the user (QE namelists, SIESTA ChemicalSpeciesLabel, TURBOMOLE job directory) exactly as documented",
    "for output formats that carry no atomic positions a permuted/duplicated/stale delivery is undetectable by design; only count and truncation faults are asserted there",
    "cp2k (structure reader needs cp2k-input-tools), crystal (its reader parses CRYSTAL output, not the input its writer produces) and fleur (written files cannot be read back: recorded finding) run a forces-only protocol: the peer takes displaced supercells from phonopy's objects, only the force output is a file; wien2k takes part with structure files only (no peer for its symmetry-reduced force format); all unit sets are still checked",
    "agreement of the restarted reader's frequencies with the reference is asserted to max(2e-5 of the eigenvalue scale, FORCE_SETS print quantum 5e-11 force units / displacement)",
]
FAULT_KINDS = ["permute", "duplicate", "missing", "extra", "truncate", "stale", "relaxation"]

_E = None


def prepare(tier):
    global _E
    if _E is None:
        from .ext import Ext

        _E = Ext(("serial",))


def components():
    return {
        "real": ["phonopy.interface.<calculator> readers/writers, write_supercells_with_displacements, create_FORCE_SETS (check_agreements_of_displacements), phonopy.load(calculator=K), units tables",
                 "serial build of the compiled kernels"],
        "simulated": ["calculator jobs (peers.py): exactly harmonic forces for the structure actually read, in the calculator's output format and native units",
                      "delivery of outputs: permutation, duplication, loss, extra file, truncation (crashed job), stale output of another displacement set",
                      "process boundaries: every phonopy step is a fresh forked process; the directory is the only channel"],
        "stub": ["nanobind -> binding shim", "external DFT codes -> peers"],
    }


def n_runs(tier):
    return 1600 if tier == "quick" else 24000


def gen_spec(seed, index, tier):
    rng = core.rng_of(seed, "c17")
    calcs = peers.ALL_CALCULATORS + ["vasp", "vasp"]  # vasp is the one format whose output carries positions: more delivery runs
    calc = calcs[index % len(calcs)] if rng.random() < 0.8 else rng.choice(calcs)
    names = ["nacl_prim", "cscl", "hcp", "bct", "tric", "mono", "wurtzite", "rutile_mixed", "nacl_mixed_out", "ortho_c", "rhombo_hex", "nacl", "si", "rutile", "perovskite", "afm_mixed", "bcc_afm", "bcc_noncollinear"]
    w = World.generate(seed, names=names, max_atoms=rng.choice([8, 16, 16, 24]))
    faulty = (index // len(calcs)) % 3 != 0  # not index % 3: len(calcs) is a multiple of 3 and would tie the fault family to the calculator
    faults = []
    if faulty:
        faults = sorted(rng.sample(FAULT_KINDS, rng.randint(1, 2)))
        if calc == "vasp" and rng.random() < 0.3:
            faults = ["relaxation"]
    return dict(seed=seed, world=w.spec, calc=calc, faults=faults, fault_seed=rng.getrandbits(32), with_born=rng.random() < 0.6,
                distance=rng.choice([None, 0.03]), is_plusminus=rng.choice(["auto", True]),
                # a quarter of the runs: random displacements of all atoms (type-2 dataset).  No force-constant solver for
                # them is installed, so these runs end with the FORCE_SETS built from the delivery
                random_displacements=(rng.randint(2, 4) if rng.random() < 0.25 else 0))


# ------------------------------------------------------------------ helpers
def same_crystal(a_lat, a_pos, a_sym, b_lat, b_pos, b_sym, tol=1e-5):
    """a: intended (phonopy order), b: read back.  Returns (ok, how, order) where order maps b index -> a index."""
    a_lat, b_lat = np.array(a_lat), np.array(b_lat)
    Ga, Gb = a_lat @ a_lat.T, b_lat @ b_lat.T
    if not np.allclose(Ga, Gb, atol=1e-6 * max(1.0, float(np.abs(Ga).max()))):
        return False, "lattice metric differs by %.2e" % float(np.abs(Ga - Gb).max()), None
    n = len(a_sym)
    if len(b_sym) != n:
        return False, "atom count %d -> %d" % (n, len(b_sym)), None
    a_sym = [str(s) for s in a_sym]
    b_sym = [str(s) for s in b_sym]
    species = []
    for s in a_sym:
        if s not in species:
            species.append(s)
    grouped = [i for s in species for i in range(n) if a_sym[i] == s]
    for how, perm in (("same order", list(range(n))), ("stable grouping by species", grouped)):
        ok = True
        for k, i in enumerate(perm):
            d = np.array(a_pos[i]) - np.array(b_pos[k])
            d -= np.rint(d)
            if a_sym[i] != b_sym[k] or np.abs(d @ a_lat).max() > tol * max(1.0, float(np.abs(a_lat).max()) / 5):
                ok = False
                break
        if ok:
            return True, how, perm
    return False, "species/positions not paired as written: %s -> %s" % (a_sym, b_sym), None


def _listing():
    out = []
    for root, dirs, files in os.walk("."):
        for f in files:
            out.append(os.path.relpath(os.path.join(root, f), "."))
    return sorted(out)


# ------------------------------------------------------------------ process 1: phonopy -d
def child_displace(args):
    spec, path = args
    from phonopy import Phonopy
    from phonopy.interface.calculator import (get_default_displacement_distance, get_default_physical_units, write_crystal_structure,
                                              write_supercells_with_displacements)
    from phonopy.structure.atoms import PhonopyAtoms

    os.chdir(path)
    calc = spec["calc"]
    w = World(spec["world"])
    L = peers.UNITS[calc][0]
    c0 = w.unitcell()
    mm = None if c0.magnetic_moments is None else np.array(c0.magnetic_moments, dtype=float)
    if mm is not None and mm.ndim == 2 and calc not in ("vasp", "qe"):
        mm = None  # non-collinear moments: only the MAGMOM-file route (VASP, QE) is documented to carry them
    cell = PhonopyAtoms(symbols=c0.symbols, cell=np.array(c0.cell) / L, scaled_positions=c0.scaled_positions, magnetic_moments=mm)
    out = {"steps": [], "violations": [], "super_magmoms": None}
    if spec.get("_forces_only"):
        # no structure files: the supercells go to the peer as objects, only the calculator's force output is a file
        units = get_default_physical_units(calc)
        ph = Phonopy(cell, supercell_matrix=w.supercell_matrix, primitive_matrix=w.primitive_matrix, factor=units["factor"], calculator=calc, log_level=0)
        dist = spec["distance"]
        dist = get_default_displacement_distance(calc) if dist is None else dist / L
        if spec.get("random_displacements"):
            ph.generate_displacements(distance=dist, number_of_snapshots=spec["random_displacements"], random_seed=spec["fault_seed"] % 100000)
        else:
            ph.generate_displacements(distance=dist, is_plusminus=spec["is_plusminus"])
        ph.save("phonopy_disp.yaml")
        sc = ph.supercell
        out.update(
            new_files=[], natom=len(sc), ndisp=len(ph.supercells_with_displacements),
            supercell=dict(lattice=np.array(sc.cell), positions=np.array(sc.scaled_positions), symbols=list(sc.symbols)),
            displaced=[dict(positions=np.array(c.scaled_positions)) for c in ph.supercells_with_displacements],
            dataset=ph.dataset, unit_symbols=list(cell.symbols), unitcell=dict(lattice=np.array(cell.cell), positions=np.array(cell.scaled_positions), symbols=list(cell.symbols)),
            species_in_file_order=list(dict.fromkeys(cell.symbols)),
        )
        sc_A = PhonopyAtoms(symbols=sc.symbols, cell=np.array(sc.cell) * L, scaled_positions=sc.scaled_positions)
        out["fc_model"] = w.force_constants(sc_A)
        out["born"] = None
        if w.nac_method and spec["with_born"] and units["nac_factor"] is not None:  # no NAC factor documented for this calculator: NAC not offered
            n = w.nac_params(ph.primitive)
            if n is not None:
                from phonopy.file_IO import write_BORN

                write_BORN(ph.primitive, n["born"], n["dielectric"], filename="BORN")
                out["born"] = {"born": n["born"], "dielectric": n["dielectric"]}
        out["primitive_matrix"] = np.array(ph.primitive_matrix)
        return out
    info0 = peers.structure_info(calc, cell.symbols)
    fname = {"turbomole": "ucell"}.get(calc, "unitcell.in")
    with contextlib.redirect_stdout(io.StringIO()):
        peers.write_structure(calc, fname, cell, info0, author=True)
    try:
        with contextlib.redirect_stdout(io.StringIO()):
            ucell, info = peers.read_structure(calc, fname)
    except BaseException as e:  # noqa: BLE001
        out["violations"].append({"class": "structure-roundtrip", "site": "%s:unitcell:reader-raises" % calc, "detail": "%s: %s" % (type(e).__name__, str(e)[:200])})
        return out
    if ucell is None:
        out["violations"].append({"class": "structure-roundtrip", "site": "%s:unitcell:reader-returns-nothing" % calc, "detail": str(info)})
        return out
    ok, how, order0 = same_crystal(cell.cell, cell.scaled_positions, cell.symbols, ucell.cell, ucell.scaled_positions, ucell.symbols)
    if not ok:
        out["violations"].append({"class": "structure-roundtrip", "site": "%s:unitcell%s" % (calc, ":interleaved-species" if spec.get("_interleaved") else ""), "detail": how})
        return out
    out["unitcell_how"] = how
    if mm is not None:
        # magnetic moments: formats that carry them in the structure file must give them back on the right atoms; for the
        # others the user states them separately (MAGMOM tag), here in the order of the cell that was read
        want = mm[order0]
        got = ucell.magnetic_moments
        if calc in peers.MAGMOMS_IN_STRUCTURE_FILE:
            if got is None or np.shape(got) != np.shape(want) or not np.allclose(np.array(got, dtype=float), want, atol=1e-8):
                out["violations"].append({"class": "structure-roundtrip", "site": "%s:unitcell:magnetic-moments" % calc,
                                          "detail": "written %s read %s" % (want.tolist(), None if got is None else np.array(got).tolist())})
        ucell.magnetic_moments = want
    # the dispatcher must accept what read_crystal_structure returned (its documented contract), and the result must read back
    il = ":interleaved-species" if spec.get("_interleaved") else ""
    wrote = False
    try:
        with contextlib.redirect_stdout(io.StringIO()):
            if calc == "turbomole":
                os.makedirs("rewritten", exist_ok=True)
            write_crystal_structure("rewritten", ucell, interface_mode=calc, optional_structure_info=info)
            peers.fix_structure_file(calc, "rewritten", ucell)
        wrote = True
    except BaseException as e:  # noqa: BLE001
        out["violations"].append({"class": "structure-roundtrip", "site": "%s:write_crystal_structure(info from reader):%s" % (calc, type(e).__name__), "detail": str(e)[:200]})
    if wrote:
        try:
            with contextlib.redirect_stdout(io.StringIO()):
                again, _ = peers.read_structure(calc, "rewritten")
            if again is None:
                out["violations"].append({"class": "structure-roundtrip", "site": "%s:rewritten-unitcell:reader-returns-nothing" % calc, "detail": ""})
            else:
                ok2, how2, _ = same_crystal(ucell.cell, ucell.scaled_positions, ucell.symbols, again.cell, again.scaled_positions, again.symbols)
                if not ok2:
                    out["violations"].append({"class": "structure-roundtrip", "site": "%s:rewritten-unitcell%s" % (calc, il), "detail": how2})
        except BaseException as e:  # noqa: BLE001
            out["violations"].append({"class": "structure-roundtrip", "site": "%s:rewritten-unitcell:reader-raises:%s" % (calc, type(e).__name__), "detail": str(e)[:200]})
    for f in ("rewritten",):
        if os.path.isdir(f):
            shutil.rmtree(f)
        elif os.path.exists(f):
            os.remove(f)
    units = get_default_physical_units(calc)
    ph = Phonopy(ucell, supercell_matrix=w.supercell_matrix, primitive_matrix=w.primitive_matrix, factor=units["factor"], calculator=calc, log_level=0)
    dist = spec["distance"]
    if dist is None:
        dist = get_default_displacement_distance(calc)
    else:
        dist = dist / L
    if spec.get("random_displacements"):
        ph.generate_displacements(distance=dist, number_of_snapshots=spec["random_displacements"], random_seed=spec["fault_seed"] % 100000)
    else:
        ph.generate_displacements(distance=dist, is_plusminus=spec["is_plusminus"])
    before = set(_listing())
    add = {"supercell_matrix": ph.supercell_matrix}
    with contextlib.redirect_stdout(io.StringIO()):
        write_supercells_with_displacements(calc, ph.supercell, ph.supercells_with_displacements, optional_structure_info=info, additional_info=add)
    ph.save("phonopy_disp.yaml")
    new = sorted(set(_listing()) - before)
    sc = ph.supercell
    out.update(
        new_files=new, natom=len(sc), ndisp=len(ph.supercells_with_displacements),
        supercell=dict(lattice=np.array(sc.cell), positions=np.array(sc.scaled_positions), symbols=list(sc.symbols)),
        displaced=[dict(positions=np.array(c.scaled_positions)) for c in ph.supercells_with_displacements],
        dataset=ph.dataset, unit_symbols=list(ucell.symbols), unitcell=dict(lattice=np.array(ucell.cell), positions=np.array(ucell.scaled_positions), symbols=list(ucell.symbols)), species_in_file_order=list(dict.fromkeys(ucell.symbols)),
        super_magmoms=(None if sc.magnetic_moments is None else np.array(sc.magnetic_moments, dtype=float)),
        magmom_file=(open("MAGMOM").read() if os.path.exists("MAGMOM") else None),
    )
    # the model lives on phonopy's supercell (angstrom)
    from phonopy.structure.atoms import PhonopyAtoms as PA

    sc_A = PA(symbols=sc.symbols, cell=np.array(sc.cell) * L, scaled_positions=sc.scaled_positions)
    out["fc_model"] = w.force_constants(sc_A)
    out["born"] = None
    if w.nac_method and spec["with_born"]:
        n = w.nac_params(ph.primitive)
        if n is not None:
            from phonopy.file_IO import write_BORN

            write_BORN(ph.primitive, n["born"], n["dielectric"], filename="BORN")
            out["born"] = {"born": n["born"], "dielectric": n["dielectric"]}
    out["primitive_matrix"] = np.array(ph.primitive_matrix)
    return out


def displaced_file_for(calc, new_files, idx, width=3):
    tag = "-%0*d" % (width, idx)
    cands = [f for f in new_files if tag in f]
    if calc == "turbomole":
        dirs = sorted(set(f.split(os.sep)[0] for f in cands))
        return dirs[0] if dirs else None
    cands = [f for f in cands if os.sep not in f]
    return cands[0] if cands else None


# ------------------------------------------------------------------ process 2: phonopy -f
def child_collect(args):
    spec, path, files = args
    from phonopy.cui.create_force_sets import create_FORCE_SETS
    from phonopy.interface.phonopy_yaml import PhonopyYaml

    os.chdir(path)
    py = PhonopyYaml()
    py.read("phonopy_disp.yaml")
    buf = io.StringIO()
    res = {"refused": None}
    try:
        with contextlib.redirect_stdout(buf):
            create_FORCE_SETS(spec["calc"], files, phpy_yaml=py, disp_filename="phonopy_disp.yaml", log_level=1, force_sets_zero_mode=bool(spec.get("_fz")))
    except SystemExit as e:
        res["refused"] = "SystemExit(%s)" % e.code
    except Exception as e:  # noqa: BLE001
        res["refused"] = "%s: %s" % (type(e).__name__, str(e)[:160])
    res["written"] = os.path.exists("FORCE_SETS")
    res["stdout_tail"] = buf.getvalue()[-300:]
    return res


# ------------------------------------------------------------------ process 3: restarted reader
PROBES = [[0.5, 0.0, 0.0], [0.13, 0.27, -0.31], [0.0, 0.0, 0.0], [0.02, 0.0, 0.0]]


def child_load(args):
    spec, path = args
    import phonopy

    os.chdir(path)
    kw = dict(force_sets_filename="FORCE_SETS", is_compact_fc=False, symmetrize_fc=False, log_level=0)
    # the calculator is recorded in phonopy_disp.yaml: the restarted reader may name it again or rely on the file
    if spec["fault_seed"] % 2 == 0:
        kw["calculator"] = spec["calc"]
    if os.path.exists("BORN"):
        kw["born_filename"] = "BORN"
    else:
        kw["is_nac"] = False
    try:
        ph = phonopy.load("phonopy_disp.yaml", **kw)
        ph.run_qpoints(PROBES, nac_q_direction=[1, 0, 0])
    except Exception as e:  # noqa: BLE001
        return {"load_raised": "%s: %s" % (type(e).__name__, str(e)[:200])}
    return {"freq": np.array(ph.get_qpoints_dict()["frequencies"]), "factor": ph.unit_conversion_factor, "min_mass": float(np.min(ph.masses)),
            "nac_factor": None if ph.nac_params is None else ph.nac_params.get("factor")}


def child_units_only(args):
    """The unit tables alone: the same physical crystal expressed in K's units, straight through the API."""
    spec, path = args
    from phonopy import Phonopy
    from phonopy.interface.calculator import get_default_physical_units
    from phonopy.structure.atoms import PhonopyAtoms

    calc = spec["calc"]
    w = World(spec["world"])
    L = peers.UNITS[calc][0]
    c0 = w.unitcell()
    cell = PhonopyAtoms(symbols=c0.symbols, cell=np.array(c0.cell) / L, scaled_positions=c0.scaled_positions)
    units = get_default_physical_units(calc)
    ph = Phonopy(cell, supercell_matrix=w.supercell_matrix, primitive_matrix=w.primitive_matrix, factor=units["factor"], calculator=calc, log_level=0)
    sc = ph.supercell
    sc_A = PhonopyAtoms(symbols=sc.symbols, cell=np.array(sc.cell) * L, scaled_positions=sc.scaled_positions)
    fc_model = w.force_constants(sc_A)
    out = {"nac_factor": units["nac_factor"], "fc_model": fc_model, "born": None, "unitcell": dict(lattice=np.array(cell.cell), positions=np.array(cell.scaled_positions), symbols=list(cell.symbols)),
           "supercell": dict(lattice=np.array(sc.cell), positions=np.array(sc.scaled_positions), symbols=list(sc.symbols)), "primitive_matrix": np.array(ph.primitive_matrix)}
    if w.nac_method and spec["with_born"] and units["nac_factor"] is not None:
        n = w.nac_params(ph.primitive)
        if n is not None:
            out["born"] = {"born": n["born"], "dielectric": n["dielectric"]}
            ph.nac_params = {"born": n["born"], "dielectric": n["dielectric"], "factor": units["nac_factor"]}
    ph.force_constants = fc_model / peers.fc_unit(calc)
    ph.run_qpoints(PROBES, nac_q_direction=[1, 0, 0])
    out["freq"] = np.array(ph.get_qpoints_dict()["frequencies"])
    # force-constant unit table: label of this calculator, conversion factors from every documented label, and the
    # hdf5 route that applies them (a file labelled in another calculator's unit, read for this calculator)
    from phonopy.cui.load_helper import read_force_constants_from_hdf5
    from phonopy.file_IO import write_force_constants_to_hdf5
    from phonopy.interface.calculator import get_force_constant_conversion_factor

    conv = {}
    out["fc_label"] = units["force_constants_unit"]
    for lab in sorted(peers.LABEL_VALUE):
        try:
            conv[lab] = float(get_force_constant_conversion_factor(lab, calc))
        except Exception as e:  # noqa: BLE001
            conv[lab] = "%s: %s" % (type(e).__name__, e)
    out["fc_conv"] = conv
    import tempfile

    src = sorted(peers.FC_LABEL)[spec["seed"] % len(peers.FC_LABEL)]
    with tempfile.TemporaryDirectory(prefix="c17h-", dir=os.environ.get("TMPDIR", "/tmp")) as td:
        fn = os.path.join(td, "fc.hdf5")
        small = np.ascontiguousarray(fc_model[: min(4, len(fc_model)), : min(4, len(fc_model))])
        write_force_constants_to_hdf5(small / peers.fc_unit(src), filename=fn, physical_unit=peers.FC_LABEL[src])
        got = read_force_constants_from_hdf5(filename=fn, calculator=calc)
        out["hdf5_src"] = src
        out["hdf5_err"] = float(np.max(np.abs(got - small / peers.fc_unit(calc)))) / max(1e-300, float(np.max(np.abs(small / peers.fc_unit(calc)))))
        # the same through the front door: phonopy.load(..., force_constants_filename=<labelled hdf5>, calculator=K)
        import phonopy

        fn2 = os.path.join(td, "force_constants_labelled.hdf5")
        write_force_constants_to_hdf5(fc_model / peers.fc_unit(src), filename=fn2, physical_unit=peers.FC_LABEL[src])
        try:
            ph2 = phonopy.load(unitcell=cell, supercell_matrix=w.supercell_matrix, primitive_matrix=w.primitive_matrix, calculator=calc,
                               force_constants_filename=fn2, is_nac=False, symmetrize_fc=False, is_compact_fc=False, log_level=0)
            got2 = np.array(ph2.force_constants)
            want2 = fc_model / peers.fc_unit(calc)
            out["hdf5_load_err"] = (float(np.max(np.abs(got2 - want2))) / max(1e-300, float(np.max(np.abs(want2))))) if got2.shape == want2.shape else 1.0
        except Exception as e:  # noqa: BLE001
            out["hdf5_load_err"] = "%s: %s" % (type(e).__name__, str(e)[:160])
    return out


def reference_frequencies(w, ucell, pmat, fc_model, born, calc):
    """Same crystal in angstrom / eV with the simulator's own constants.  `ucell` is the unit cell (lattice in K's length unit,
    fractional positions, symbols) from which the K-unit run built its supercell, so that the atom order of fc_model applies."""
    from phonopy import Phonopy
    from phonopy.structure.atoms import PhonopyAtoms

    L = peers.UNITS[calc][0]
    ph = Phonopy(PhonopyAtoms(symbols=ucell["symbols"], cell=np.array(ucell["lattice"]) * L, scaled_positions=ucell["positions"]), supercell_matrix=w.supercell_matrix,
                 primitive_matrix=pmat, factor=peers.VASP_TO_THZ, log_level=0)
    if born is not None:
        ph.nac_params = {"born": born["born"], "dielectric": born["dielectric"], "factor": peers.E2_OVER_4PIEPS0}
    ph.force_constants = fc_model
    ph.run_qpoints(PROBES, nac_q_direction=[1, 0, 0])
    return np.array(ph.get_qpoints_dict()["frequencies"])


def cmp_freq(f, ref):
    a = np.sign(f) * f * f
    b = np.sign(ref) * ref * ref
    sc = float(np.max(np.abs(b))) or 1.0
    d = float(np.max(np.abs(a - b)))
    return d, sc


# ------------------------------------------------------------------ one run
def execute(spec):
    calc = spec["calc"]
    w = World(spec["world"])
    violations = []
    faults = {}
    probes = {}
    log = []
    steps = {"process_restarts": 0, "peer_jobs": 0}
    L, Funit = peers.UNITS[calc]

    def V(cls, site, **detail):
        violations.append({"class": cls, "site": site, "detail": detail})

    def sub(fn, arg):
        steps["process_restarts"] += 1
        o = core.call_isolated(fn, arg, timeout=600.0)
        if o.kind != "ok":
            raise RuntimeError("sub-process %s: %s %s" % (fn.__name__, o.kind, str(o.detail)[-1500:]))
        return o.value

    interleaved = CRYSTALS[w.name]["symbols"] != sorted(CRYSTALS[w.name]["symbols"], key=lambda s: list(dict.fromkeys(CRYSTALS[w.name]["symbols"])).index(s))
    if interleaved:
        probes["species_interleaved_cell"] = 1
    if w.name in ("tric", "mono"):
        probes["low_symmetry_cell"] = 1
    if w.name == "nacl_mixed_out":
        probes["positions_outside_unit_interval"] = 1
    nontrivial = interleaved or w.name in ("tric", "mono", "nacl_mixed_out") or L != 1.0

    # ---------------- unit-table run (every calculator)
    uo = sub(child_units_only, (spec, None))
    ref = reference_frequencies(w, uo["unitcell"], uo["primitive_matrix"], uo["fc_model"], uo["born"], calc)
    d, sc = cmp_freq(uo["freq"], ref)
    if d > 1e-5 * sc:
        V("units-inconsistent", "%s:%s" % (calc, "with-NAC" if uo["born"] is not None else "no-NAC"), maxdiff_eig=d, scale=sc, freq=uo["freq"][3].tolist(), ref=ref[3].tolist(), nac_factor=uo["nac_factor"])
    if uo["fc_label"] != peers.FC_LABEL[calc]:
        V("units-inconsistent", "%s:force-constant-unit-label" % calc, phonopy=uo["fc_label"], documented=peers.FC_LABEL[calc])
    for lab, got in uo["fc_conv"].items():
        want = peers.LABEL_VALUE[lab] / peers.fc_unit(calc)
        if not isinstance(got, float) or abs(got - want) > 1e-6 * want:
            V("units-inconsistent", "%s:fc-conversion-from:%s" % (calc, lab), phonopy=got, expected=want)
    if not (isinstance(uo.get("hdf5_load_err"), float) and uo["hdf5_load_err"] <= 1e-6):
        V("units-inconsistent", "%s:load(hdf5-labelled:%s)" % (calc, peers.FC_LABEL[uo["hdf5_src"]]), rel_err=uo.get("hdf5_load_err"))
    if uo["hdf5_err"] > 1e-6:
        V("units-inconsistent", "%s:hdf5-unit-conversion-from:%s" % (calc, peers.FC_LABEL[uo["hdf5_src"]]), rel_err=uo["hdf5_err"])
    probes["unit_table_run:%s" % calc] = 1
    log.append(("units", calc, core.digest(np.round(uo["freq"], 6))))

    fired = []
    modes = ([False] if calc in peers.STRUCTURE_ROUNDTRIP else []) + ([True] if calc in peers.FORCES_ONLY else [])
    for forces_only in modes:
        if forces_only:
            probes["forces_only_protocol:%s" % calc] = 1
        with simfs.RunDir("c17-") as rd:
            path = rd.path
            p1 = sub(child_displace, (dict(spec, _interleaved=interleaved, _forces_only=forces_only), path))
            violations.extend(p1["violations"])
            if "new_files" in p1:
                sup = p1["supercell"]
                from phonopy.structure.atoms import PhonopyAtoms

                ideal_A = PhonopyAtoms(symbols=sup["symbols"], cell=sup["lattice"] * L, scaled_positions=sup["positions"])
                outputs = []
                # residual net force of a real calculation: a constant vector on every atom of every output (60 % of the runs)
                drng = core.rng_of(spec["fault_seed"], "drift")
                drift = None
                if drng.random() < 0.6 and calc in peers.SUBTRACTS_DRIFT:
                    fmag = float(np.max(np.abs(p1["fc_model"]))) * 0.01
                    drift = np.array([drng.uniform(-1, 1) for _ in range(3)]) * 0.2 * fmag
                    faults["output_with_net_force(drift)"] = 1
                # --fz (VASP): the first file is the output of the perfect supercell; its (residual) forces are subtracted from every
                # other output, and it must sit on the ideal positions
                fz = calc == "vasp" and not spec.get("random_displacements") and not forces_only and drng.random() < 0.3
                residual = None
                if fz:
                    rr = np.random.default_rng(spec["fault_seed"] % (2**32))
                    residual = 0.05 * float(np.max(np.abs(p1["fc_model"]))) * 0.01 * rr.standard_normal((p1["natom"], 3))
                    faults["fz_reference_with_residual_forces"] = 1
                multiblock = calc in peers.MULTIBLOCK and drng.random() < 0.4
                if multiblock:
                    faults["output_with_earlier_force_block"] = 1

                def earlier(F_):
                    """forces of an earlier step of the same job: not the answer"""
                    return [1.7 * np.array(F_) + 0.01 * float(np.max(np.abs(F_)) or 1.0)] if multiblock else None

                any_reordered = False
                pos_err_rel = 0.0
                disp_amp = None
                cwd = os.getcwd()
                os.chdir(path)
                try:
                    def read_displaced(idx):
                        """the displaced supercell idx (0-based) as the peer sees it"""
                        if forces_only:
                            return PhonopyAtoms(symbols=sup["symbols"], cell=sup["lattice"], scaled_positions=p1["displaced"][idx]["positions"])
                        with contextlib.redirect_stdout(io.StringIO()):
                            return peers.read_structure(calc, displaced_file_for(calc, p1["new_files"], idx + 1))[0]

                    for i in range(p1["ndisp"]):
                        if forces_only:
                            rc = read_displaced(i)
                            u_ = np.array(p1["displaced"][i]["positions"]) - np.array(sup["positions"])
                            u_ -= np.rint(u_)
                            amp = float(np.max(np.linalg.norm(u_ @ np.array(sup["lattice"]), axis=1))) or 1.0
                            disp_amp = amp if disp_amp is None else min(disp_amp, amp)
                            steps["peer_jobs"] += 1
                            F, perm = peers.harmonic_forces_for_file(rc, ideal_A, p1["fc_model"], L)
                            peers.write_force_output(calc, "output-%03d" % (i + 1), rc, F, energy=-10.0 - i, drift=drift, earlier_blocks=earlier(F))
                            outputs.append("output-%03d" % (i + 1))
                            continue
                        fn = displaced_file_for(calc, p1["new_files"], i + 1)
                        if fn is None:
                            V("structure-roundtrip", "%s:displaced-supercell-file-missing" % calc, index=i + 1, files=p1["new_files"][:10])
                            break
                        try:
                            peers.fix_structure_file(calc, fn, natom=p1["natom"], ntyp=len(set(sup["symbols"])), species=p1["species_in_file_order"])
                            with contextlib.redirect_stdout(io.StringIO()):
                                rc, _ = peers.read_structure(calc, fn)
                        except BaseException as e:  # noqa: BLE001
                            V("structure-roundtrip", "%s:displaced-supercell:reader-raises:%s" % (calc, type(e).__name__), detail=str(e)[:200], file=fn)
                            break
                        if rc is None:
                            V("structure-roundtrip", "%s:displaced-supercell:reader-returns-nothing" % calc, file=fn)
                            break
                        ok, how, order = same_crystal(sup["lattice"], p1["displaced"][i]["positions"], sup["symbols"], rc.cell, rc.scaled_positions, rc.symbols)
                        if not ok:
                            V("structure-roundtrip", "%s:displaced-supercell%s" % (calc, ":interleaved-species" if interleaved else ""), detail=how, file=fn)
                            break
                        if how != "same order":
                            any_reordered = True
                        sm = p1.get("super_magmoms")
                        if sm is not None:
                            want_m = sm[order]
                            if calc in peers.MAGMOMS_IN_STRUCTURE_FILE:
                                got_m = rc.magnetic_moments
                                if got_m is None or np.shape(got_m) != np.shape(want_m) or not np.allclose(np.array(got_m, dtype=float), want_m, atol=1e-8):
                                    V("structure-roundtrip", "%s:displaced-supercell:magnetic-moments" % calc, file=fn, written=want_m.tolist(),
                                      read=None if got_m is None else np.array(got_m).tolist())
                                probes["magnetic_moments_in_structure_file:%s" % calc] = 1
                            elif i == 0 and calc in ("vasp", "qe"):
                                # the MAGMOM file written next to the supercells lists the moments in the atom order of those files
                                txt = p1.get("magmom_file")
                                vals = None
                                if txt and "=" in txt:
                                    try:
                                        vals = np.array([float(x) for x in txt.split("=", 1)[1].split()])
                                    except ValueError:
                                        vals = None
                                if vals is None or vals.shape != np.ravel(want_m).shape or not np.allclose(vals, np.ravel(want_m), atol=1e-8):
                                    V("structure-roundtrip", "%s:MAGMOM-file-order" % calc, magmom_file=(txt or "")[:200], atoms_in_written_file=want_m.tolist())
                                probes["magmom_file_checked:%s" % calc] = 1
                        # precision the format itself carries: position error of the read-back file relative to the displacement
                        intended = np.array(p1["displaced"][i]["positions"])[order]
                        dd_ = np.array(rc.scaled_positions) - intended
                        dd_ -= np.rint(dd_)
                        u_ = np.array(p1["displaced"][i]["positions"]) - np.array(sup["positions"])
                        u_ -= np.rint(u_)
                        amp = float(np.max(np.linalg.norm(u_ @ np.array(sup["lattice"]), axis=1))) or 1.0
                        pos_err_rel = max(pos_err_rel, float(np.max(np.linalg.norm(dd_ @ np.array(sup["lattice"]), axis=1))) / amp)
                        disp_amp = amp if disp_amp is None else min(disp_amp, amp)
                        steps["peer_jobs"] += 1
                        if calc in peers.PEER_CALCULATORS:
                            F, perm = peers.harmonic_forces_for_file(rc, ideal_A, p1["fc_model"], L)
                            if residual is not None:
                                F = F + residual[perm]
                            out_name = {"turbomole": "job-%03d" % (i + 1)}.get(calc, "output-%03d" % (i + 1))
                            peers.write_force_output(calc, out_name, rc, F, energy=-10.0 - i, drift=drift, earlier_blocks=earlier(F))
                            outputs.append(out_name)
                    if any_reordered:
                        probes["atoms_regrouped_by_species_in_written_files"] = 1
                    if calc in peers.PEER_CALCULATORS and len(outputs) == p1["ndisp"] and (forces_only or not any(v["class"] == "structure-roundtrip" for v in violations)):
                        # ---------------- delivery with faults
                        frng = core.rng_of(spec["fault_seed"], "delivery")
                        files = list(outputs)
                        fz_bad_reference = False
                        if fz:
                            with contextlib.redirect_stdout(io.StringIO()):
                                rc0 = peers.read_structure(calc, displaced_file_for(calc, p1["new_files"], 1))[0]
                            ok0, how0, order0 = same_crystal(sup["lattice"], sup["positions"], sup["symbols"], rc0.cell, rc0.scaled_positions, rc0.symbols, tol=0.2)
                            rc0.scaled_positions = np.array(sup["positions"])[order0]
                            peers.write_force_output(calc, "output-000", rc0, residual[order0], energy=-9.0)
                            if frng.random() < 0.35:
                                fz_bad_reference = True  # the user hands over a displaced supercell's output as the reference
                                faults["fz_reference_is_a_displaced_supercell"] = 1
                        # type-2 datasets: phonopy accepts any number of output files by design (the first N displacements are
                        # used), so only the fault that is wrong whatever the count - a truncated output - is injected there
                        fault_list = [k for k in spec["faults"] if k == "truncate"] if spec.get("random_displacements") else spec["faults"]
                        for k in fault_list:
                            if k == "permute" and len(files) > 1:
                                new = files[:]
                                frng.shuffle(new)
                                if new == files:
                                    new = files[1:] + files[:1]
                                files = new
                                fired.append(k)
                            elif k == "duplicate" and len(files) > 1:
                                a, b = frng.sample(range(len(files)), 2)
                                files[a] = files[b]
                                fired.append(k)
                            elif k == "missing" and len(files) >= 1:
                                files.pop(frng.randrange(len(files)))
                                fired.append(k)
                            elif k == "extra":
                                files.append(files[frng.randrange(len(files))] if files else outputs[0])
                                fired.append(k)
                            elif k == "truncate" and files:
                                victim = files[frng.randrange(len(files))]
                                mid = frng.random() < 0.5
                                peers.truncate_in_force_block(calc, victim, midline=mid, frac=frng.choice([0.3, 0.5, 0.8, 0.93, 0.97]))
                                fired.append("truncate" + ("-midline" if mid else "") + ("(after-earlier-block)" if multiblock else ""))
                            elif k == "relaxation" and files and calc == "vasp":
                                # the job was (wrongly) run as a relaxation: the output holds a second ionic step whose atoms
                                # moved away from the displaced geometry, with that step's forces
                                j = frng.randrange(len(files))
                                idx = outputs.index(files[j]) if files[j] in outputs else 0
                                fnj = displaced_file_for(calc, p1["new_files"], idx + 1)
                                with contextlib.redirect_stdout(io.StringIO()):
                                    rcj, _ = peers.read_structure(calc, fnj)
                                ok_, how_, order_ = same_crystal(sup["lattice"], sup["positions"], sup["symbols"], rcj.cell, rcj.scaled_positions, rcj.symbols, tol=0.2)
                                if order_ is not None:
                                    F1, _ = peers.harmonic_forces_for_file(rcj, ideal_A, p1["fc_model"], L)
                                    ideal_f = np.array(sup["positions"])[order_]
                                    dpos = np.array(rcj.scaled_positions) - ideal_f
                                    dpos -= np.rint(dpos)
                                    first_pos = np.array(rcj.scaled_positions)
                                    moved = ideal_f + 0.35 * dpos + 0.004
                                    rc2 = rcj.copy()
                                    rc2.scaled_positions = moved
                                    F2, _ = peers.harmonic_forces_for_file(rc2, ideal_A, p1["fc_model"], L)
                                    rcj.scaled_positions = first_pos
                                    name_ = "relaxed-output"
                                    peers.write_force_output(calc, name_, rcj, F1, energy=-77.0, later_steps=[(moved, F2)])
                                    files[j] = name_
                                    fired.append(k)
                            elif k == "stale" and files:
                                # output left over from an earlier displacement set (3x larger displacements)
                                j = frng.randrange(len(files))
                                idx = outputs.index(files[j]) if files[j] in outputs else 0
                                rcj = read_displaced(idx)
                                pos = np.array(rcj.scaled_positions)
                                ideal_in_file_order = None
                                ok_, how_, order_ = same_crystal(sup["lattice"], sup["positions"], sup["symbols"], rcj.cell, rcj.scaled_positions, rcj.symbols, tol=0.2)
                                if order_ is not None:
                                    ideal_in_file_order = np.array(sup["positions"])[order_]
                                    dpos = pos - ideal_in_file_order
                                    dpos -= np.rint(dpos)
                                    rcj.scaled_positions = ideal_in_file_order + 3.0 * dpos
                                    Fj, _ = peers.harmonic_forces_for_file(rcj, ideal_A, p1["fc_model"], L)
                                    stale_name = {"turbomole": "stale-job"}.get(calc, "stale-output")
                                    peers.write_force_output(calc, stale_name, rcj, Fj, energy=-99.0, drift=drift)
                                    files[j] = stale_name
                                    fired.append(k)
                        for k in fired:
                            faults["delivery:" + k] = faults.get("delivery:" + k, 0) + 1
                        if not fired:
                            faults["delivery:fault-free"] = 1
                        if fz:
                            files = [outputs[-1] if fz_bad_reference else "output-000"] + files
                        if calc == "vasp" and frng.random() < 0.3:
                            # vasprun.xml may be handed over compressed (phonopy chooses the reader by the file name's suffix)
                            import bz2
                            import gzip
                            import lzma

                            ext_, opener = frng.choice([(".xz", lzma.open), (".lzma", lzma.open), (".gz", gzip.open), (".bz2", bz2.open)])
                            done = {}
                            for f_ in files:
                                if f_ not in done:
                                    with open(f_, "rb") as src_, opener(f_ + ext_, "wb") as dst_:
                                        dst_.write(src_.read())
                                    done[f_] = f_ + ext_
                            files = [done[f_] for f_ in files]
                            faults["delivery:compressed" + ext_] = 1
                        os.chdir(cwd)
                        p2 = sub(child_collect, (dict(spec, _fz=fz), path, files))
                        os.chdir(path)
                        written, refused = p2["written"], p2["refused"]
                        log.append(("collect", calc, fired, written, bool(refused)))
                        correct = None
                        if written:
                            from phonopy.file_IO import parse_FORCE_SETS

                            ds = parse_FORCE_SETS(natom=p1["natom"], filename="FORCE_SETS")
                            errs = []
                            if "first_atoms" in ds:
                                n_sets = len(ds["first_atoms"])
                                for dsp in ds["first_atoms"]:
                                    u = np.zeros((p1["natom"], 3))
                                    u[dsp["number"]] = np.array(dsp["displacement"]) * L
                                    Fexp = -np.einsum("ijab,jb->ia", p1["fc_model"], u) / Funit
                                    errs.append(float(np.max(np.abs(Fexp - np.array(dsp["forces"])))))
                            else:
                                # type 2: every row pairs the displacements of one supercell with its forces; the displacements are
                                # printed with 8 decimals, so the expected forces are taken at the printed displacements
                                n_sets = len(ds["displacements"])
                                for u_, f_ in zip(np.array(ds["displacements"]), np.array(ds["forces"])):
                                    Fexp = -np.einsum("ijab,jb->ia", p1["fc_model"], u_ * L) / Funit
                                    errs.append(float(np.max(np.abs(Fexp - f_))))
                                intended = np.array(p1["dataset"]["displacements"]) if "displacements" in p1["dataset"] else None
                                if intended is not None and n_sets == len(intended) and np.max(np.abs(intended - np.array(ds["displacements"]))) > 0.6e-8:
                                    errs.append(1.0)  # rows paired with other supercells' displacements
                            fscale = max(1e-12, float(np.max(np.abs(p1["fc_model"]))) * 0.01 / Funit)
                            # (type 2 prints forces with 8 decimals, and the harmonic model is evaluated at 8-decimal displacements)
                            ftol = (1e-6 * max(1.0, fscale / 1e-3) + 2e-9) if "first_atoms" in ds else (1e-6 * max(1.0, fscale / 1e-3) + 2e-8 + 1e-8 * float(np.max(np.abs(p1["fc_model"]))) * L / Funit)
                            correct = n_sets == p1["ndisp"] and max(errs) < ftol
                            probes["force_sets_max_error"] = max(errs)
                        trunc = [k for k in fired if k.startswith("truncate")]
                        must_refuse = bool(trunc) or (len(files) - (1 if fz else 0)) != p1["ndisp"] or fz_bad_reference
                        if fz_bad_reference:
                            fired = fired + ["fz-reference-displaced"]
                        detectable = calc in peers.CARRIES_POSITIONS
                        regrouped = any_reordered
                        site_f = "+".join(sorted(set(fired))) if fired else "fault-free"
                        if trunc:
                            site_f = trunc[0]  # a truncated output decides the verdict whatever else happened to the delivery
                        if not fired:
                            if written and not correct and not (regrouped and not detectable):
                                V("force-sets-wrong", "%s:fault-free" % calc, max_err=probes.get("force_sets_max_error"))
                            elif written and not correct:
                                probes["silent_mispairing_not_claimed(regrouped,no_positions_in_output)"] = 1
                            elif not written and not regrouped:
                                V("correct-delivery-refused", "%s:fault-free" % calc, refused=refused, stdout=p2["stdout_tail"])
                            elif not written:
                                probes["refusal_path_taken:regrouped_atoms"] = 1
                        else:
                            if written and correct is False:
                                if must_refuse or detectable:
                                    V("force-sets-wrong", "%s:%s" % (calc, site_f), max_err=probes.get("force_sets_max_error"), files=files)
                                else:
                                    probes["undetectable_fault_accepted(no_positions_in_output)"] = 1
                            elif written and must_refuse:
                                V("faulty-delivery-accepted", "%s:%s" % (calc, site_f), files=files)
                            elif not written:
                                probes["refusal_path_taken"] = probes.get("refusal_path_taken", 0) + 1
                        # ---------------- restarted reader with calculator=K
                        if written and correct and spec.get("random_displacements"):
                            probes["type2_force_sets_built:%s" % calc] = 1
                        if written and correct and not spec.get("random_displacements"):
                            os.chdir(cwd)
                            p3 = sub(child_load, (spec, path))
                            os.chdir(path)
                            if "load_raised" in p3:
                                # FORCE_SETS was built and is correct; the restarted reader must be able to use it
                                V("correct-delivery-refused", "%s:restarted-reader-raises:%s" % (calc, p3["load_raised"].split(":")[0]), detail=p3["load_raised"])
                                continue
                            refp = reference_frequencies(w, p1["unitcell"], p1["primitive_matrix"], p1["fc_model"], p1["born"], calc)
                            d, sc = cmp_freq(p3["freq"], refp)
                            # the forces answer the positions the written file carries; every format is expected to carry the
                            # displacement well enough for 2e-5 (pos_err_rel is reported for diagnosis, it does not widen the bound)
                            # FORCE_SETS carries forces to 10 decimals in the calculator's force unit (file_IO: %15.10f): with weak
                            # springs, small displacements and hartree/bohr that quantum, not the unit tables, bounds the agreement
                            quantum = 6.0 * np.sqrt(3.0 * p1["natom"]) * (5e-11 / disp_amp) * float(p3["factor"]) ** 2 / p3["min_mass"]
                            if quantum > 2e-5 * sc:
                                probes["force_sets_print_precision_bound_the_tolerance:%s" % calc] = 1
                            if d > max(2e-5 * sc, quantum):
                                V("units-inconsistent", "%s:protocol:%s" % (calc, "with-BORN" if p1["born"] is not None else "no-NAC"), maxdiff_eig=d, scale=sc,
                                  position_error_of_written_file_relative_to_displacement=pos_err_rel,
                                  freq=p3["freq"][3].tolist(), ref=refp[3].tolist(), nac_factor=p3["nac_factor"])
                            probes["protocol_completed:%s" % calc] = 1
                            if pos_err_rel > 1e-5:
                                probes["written_file_carries_displacement_to_worse_than_1e-5:%s" % calc] = 1
                finally:
                    os.chdir(cwd)
    sig = core.digest([calc, w.name, spec["world"]["supercell_matrix"], w.nac_method, sorted(set(fired)), spec["with_born"]])
    return {
        "digest": core.digest([log, sorted((v["class"], v["site"]) for v in violations)]),
        "violations": violations, "sig": sig, "nontrivial": bool(fired) or bool(nontrivial), "faults": faults, "probes": probes, "steps": steps,
        "sample": {"seed": spec["seed"], "calc": calc, "crystal": w.name, "supercell_matrix": spec["world"]["supercell_matrix"], "faults_requested": spec["faults"], "faults_fired": fired,
                   "with_born": spec["with_born"]},
    }


def shrink_candidates(spec):
    if len(spec["faults"]) > 1:
        for k in spec["faults"]:
            yield dict(spec, faults=[k])
    if spec["faults"]:
        yield dict(spec, faults=[])
    if spec["with_born"]:
        yield dict(spec, with_born=False)
    if spec["world"].get("nac"):
        yield dict(spec, world=dict(spec["world"], nac=None))

"""C13 — compiled kernels: reference semantics, any thread count, memory-safe.

Deciding method: the real kernels and the real binding glue run on the
simulated OpenMP runtime (csim/simgomp.c).  Each run fixes a world and a driver,
records the T=1 result, then re-executes the driver under seeded schedules
(team size 2..16, policy rand / rr / order / pct / directed) and requires the
same outputs; the bounds monitor judges every instrumented access of every
kernel call (including the serial kernels executed while the world is built).
"""

from __future__ import annotations

import copy
import itertools

import numpy as np

from . import core
from .world import World, qpoint_pool, CRYSTALS

PROP = "C13"
CRASH_IS_VIOLATION = True
RUN_TIMEOUT = 1200.0
SHRINK_BUDGET = 120
RULE = (
    "one evaluation = one run = (seeded world, driver, driver arguments) executed at T=1 and then under k seeded schedules "
    "(team size, policy, PRNG stream) of the simulated OpenMP runtime, plus the serial-build and Python-reference comparisons; "
    "a schedule counts as distinct by the tuple (driver, input digest, team size, policy, number of context switches, event count) "
    "and as non-trivial only if the team has more than one thread AND (at least one pre-emptive context switch happened OR the "
    "completion order of the threads was permuted by the scheduler)"
)
ASSUMPTIONS = [
    "nanobind is replaced by the binding shim csim/nanobind/nanobind.h (unconstrained ndarray<> = buffer protocol, no conversion); c/_phonopy.cpp is compiled unmodified",
    "gcc's static-schedule lowering of `#pragma omp parallel for` (GOMP_parallel + omp_get_thread_num/num_threads); other OpenMP runtimes/lowerings are not modelled",
    "yield points are the memory accesses gcc instruments under -fsanitize=thread at -O0 (-O1 in the thorough tier); register-only computation is atomic",
    "bounds monitor legal set = registered ndarray/str argument extents, live kernel malloc blocks, stacks, library image; an overflow from one argument into an adjacent registered argument or inside the stack is not seen",
    "inputs are the shapes/index maps the Python layer produces for the seeded worlds (<= 64 supercell atoms); equivalence with the reference over the whole input space is not decided here",
]

DRIVERS = ["dm_batch", "dm_batch", "mesh_tp", "dos", "pdos", "ddm", "d2f", "gl_perq", "thm_iw", "qp_gv", "tp_direct", "dm_at_q_direct", "fc_kernels", "tetra_mesh"]

_E = None


def prepare(tier):
    global _E
    if _E is None:
        from .ext import Ext

        variants = ["sim", "serial0", "serial"]
        if tier == "thorough":
            variants.append("sim1")
        _E = Ext(tuple(variants))
        import phonopy  # noqa: F401


def components():
    return {
        "real": ["c/phonopy.c", "c/dynmat.c", "c/derivative_dynmat.c", "c/rgrid.c", "c/tetrahedron_method.c", "c/_phonopy.cpp (unmodified)",
                 "phonopy/**/*.py from the working tree", "numpy/LAPACK (1 thread)", "spglib"],
        "simulated": ["libgomp -> csim/simgomp.c (team, static chunks, seeded scheduler at every instrumented access)",
                      "ThreadSanitizer runtime -> access callbacks implemented by the simulator (yield point + bounds monitor + race-candidate shadow)"],
        "stub": ["nanobind -> csim/nanobind/nanobind.h"],
    }


def n_runs(tier):
    return 640 if tier == "quick" else 8000


# ------------------------------------------------------------------ spec generation
def gen_schedule(rng, events_hint=None):
    team = rng.choice([2, 2, 3, 3, 4, 4, 5, 6, 7, 8, 11, 16])
    pol = rng.choice(["rand", "rand", "rand", "rr", "order", "pct"])
    s = dict(seed=rng.getrandbits(63), team=team, policy=pol)
    if pol == "rand":
        s["p1"] = 1
        s["p2"] = rng.choice([2, 4, 16, 64, 256, 1024, 4096])
    elif pol == "rr":
        s["p1"] = rng.choice([1, 2, 3, 5, 17, 101, 1009])
    elif pol == "pct":
        s["p1"] = rng.choice([1, 2, 3, 5, 8])
        s["p2"] = 0  # filled from the T=1 event count at run time
    return s


def gen_spec(seed, index, tier):
    rng = core.rng_of(seed, "c13")
    driver = DRIVERS[index % len(DRIVERS)] if rng.random() < 0.7 else rng.choice(DRIVERS)
    need_nac = driver in ("gl_perq",)
    force_nac = "gonze" if need_nac else None
    if driver == "ddm" and rng.random() < 0.6:
        # the derivative kernel has its own NAC branch (Wang form): make sure it meets anisotropic, site-dependent Born tensors
        need_nac, force_nac = True, "wang"
    max_atoms = rng.choice([16, 24, 36, 36, 48])
    w = World.generate(seed, max_atoms=max_atoms, force_nac=force_nac,
                       names=[n for n in CRYSTALS if (not need_nac or CRYSTALS[n].get("nac"))])
    if driver == "ddm" and force_nac == "wang":
        w.spec["born_aniso"] = 0.4
    nq = rng.randint(1, 9)
    args = dict(
        qpoints=qpoint_pool(rng, nq),
        nac_q_direction=rng.choice([None, None, [1, 0, 0], [0.3, -0.2, 0.5]]),
        mesh=[rng.randint(1, 4) for _ in range(3)],
        mesh_symmetry=rng.random() < 0.6,
        gamma_center=rng.random() < 0.5,
        temperatures=sorted(round(rng.uniform(10, 1000), 2) for _ in range(rng.randint(1, 8))),
        compact=(rng.random() < 0.5) if driver != "ddm" else (rng.random() < 0.25),
        dense_svecs=rng.random() < 0.7,
        freq_pitch=rng.choice([None, 0.25, 0.5]),
        thm_value=rng.choice(["I", "J"]),
        full_fc_out=rng.random() < 0.5,
        classical=rng.random() < 0.2,
    )
    nsched = 5 if tier == "quick" else 10
    scheds = [gen_schedule(rng) for _ in range(nsched)]
    variant = "sim"
    if tier == "thorough" and rng.random() < 0.3:
        variant = "sim1"
    return dict(seed=seed, world=w.spec, driver=driver, args=args, schedules=scheds, variant=variant)


# ------------------------------------------------------------------ drivers: each returns {name: ndarray}
def _reset(ph):
    # rebuild the DynamicalMatrix object (and its lazily built Gonze-Lee cache) through the public setter
    if ph.nac_params is not None:
        ph.nac_params = ph.nac_params
    else:
        ph.force_constants = ph.force_constants


def drv_dm_batch(ph, w, a, st):
    from phonopy.harmonic.dynamical_matrix import run_dynamical_matrix_solver_c

    q = np.array(a["qpoints"], dtype="double")
    dm = run_dynamical_matrix_solver_c(ph.dynamical_matrix, q, nac_q_direction=a["nac_q_direction"])
    return {"dynmat": dm}


def drv_mesh_tp(ph, w, a, st):
    ph.run_mesh(a["mesh"], is_mesh_symmetry=a["mesh_symmetry"], is_gamma_center=a["gamma_center"])
    ph.run_thermal_properties(temperatures=a["temperatures"], cutoff_frequency=0.05, classical=a["classical"])
    d = ph.get_thermal_properties_dict()
    f = ph.get_mesh_dict()["frequencies"]
    # compared as signed squared frequencies (eigenvalue scale): sqrt amplifies 1e-17 noise at acoustic Gamma modes to 1e-7 THz
    return {"mesh_eig": np.sign(f) * f * f, "F": d["free_energy"], "S": d["entropy"], "Cv": d["heat_capacity"]}


def drv_tp_direct(ph, w, a, st):
    """thermal_properties kernel on fixed frequencies: many q-points (the parallel loop), few bands."""
    import phonopy._phonopy as phonoc
    from phonopy.units import THzToEv

    rng = np.random.Generator(np.random.PCG64(st["seed"] & 0xFFFFFFFF))
    nq = 1 + len(a["qpoints"]) * 3
    nb = 3 * len(ph.primitive)
    freqs = np.array((rng.random((nq, nb)) * 12 + 0.06) * THzToEv, dtype="double", order="C")
    weights = rng.integers(1, 6, nq).astype("int64")
    temps = np.array(a["temperatures"], dtype="double")
    props = np.zeros((len(temps), 3), dtype="double", order="C")
    phonoc.thermal_properties(props, temps, freqs, weights, 0.05 * THzToEv, int(a["classical"]))
    return {"props": props}


def _mesh_for_dos(a):
    m = [max(2, x) for x in a["mesh"]]
    return m


def drv_dos(ph, w, a, st):
    # the mesh is computed once (T=1); every schedule / build then runs the tetrahedron kernels on the same
    # frequencies (the mesh solver itself is the subject of mesh_tp), so the comparison is between kernels only
    if not st.get("mesh_done"):
        ph.run_mesh(_mesh_for_dos(a), is_mesh_symmetry=a["mesh_symmetry"], is_gamma_center=a["gamma_center"])
        st["mesh_done"] = True
    ph.run_total_dos(freq_pitch=a["freq_pitch"], use_tetrahedron_method=True)
    d = ph.get_total_dos_dict()
    return {"freq_points": d["frequency_points"], "total_dos": d["total_dos"]}


def drv_pdos(ph, w, a, st):
    if not st.get("mesh_done"):
        ph.run_mesh(_mesh_for_dos(a), is_mesh_symmetry=False, with_eigenvectors=True, is_gamma_center=a["gamma_center"])
        st["mesh_done"] = True
    ph.run_projected_dos(freq_pitch=a["freq_pitch"], use_tetrahedron_method=True)
    d = ph.get_projected_dos_dict()
    return {"freq_points": d["frequency_points"], "projected_dos": d["projected_dos"]}


def drv_ddm(ph, w, a, st):
    from phonopy.harmonic.derivative_dynmat import DerivativeOfDynamicalMatrix

    out = {}
    # half of the runs: force constants as they come out of a calculation, i.e. WITHOUT exact index-permutation symmetry (seeded
    # noise): the Hermitian symmetrisation inside the kernel then has something to do
    keep = None
    if len(a["qpoints"]) % 2 == 0:
        keep = np.array(ph.force_constants, copy=True)
        rng = np.random.Generator(np.random.PCG64((st["seed"] ^ 0xD1D1) & 0xFFFFFFFF))
        ph.force_constants = keep * (1.0 + 0.02 * rng.standard_normal(keep.shape))
    try:
        ddm = DerivativeOfDynamicalMatrix(ph.dynamical_matrix)
        for i, q in enumerate(a["qpoints"][:4]):
            ddm.run(np.array(q, dtype="double"), q_direction=a["nac_q_direction"], lang=st.get("lang", "C"))
            out["ddm%d" % i] = np.array(ddm.d_dynamical_matrix)
            d_ = out["ddm%d" % i]
            out["ddm%d_antihermitian_part" % i] = np.array([np.max(np.abs(m - m.conj().T)) for m in d_])
    finally:
        if keep is not None:
            ph.force_constants = keep
    return out


def drv_d2f(ph, w, a, st):
    from phonopy.harmonic.dynmat_to_fc import DynmatToForceConstants

    if "d2f_dm" not in st:
        d2f0 = DynmatToForceConstants(ph.primitive, ph.supercell)
        q = d2f0.commensurate_points
        st["d2f_q"] = q
        dms = []
        for qq in q:
            ph.dynamical_matrix.run(qq)
            dms.append(ph.dynamical_matrix.dynamical_matrix.copy())
        st["d2f_dm"] = np.array(dms, dtype="c16", order="C")
    d2f = DynmatToForceConstants(ph.primitive, ph.supercell, is_full_fc=a["full_fc_out"], use_openmp=True)
    d2f.dynamical_matrices = st["d2f_dm"]
    d2f.run(lang=st.get("lang", "C"))
    return {"fc": d2f.force_constants}


def drv_gl_perq(ph, w, a, st):
    out = {}
    dm = ph.dynamical_matrix
    for i, q in enumerate(a["qpoints"][:5]):
        dm.run(np.array(q, dtype="double"), q_direction=a["nac_q_direction"])
        out["D%d" % i] = dm.dynamical_matrix.copy()
    return out


def _ref_dd_tmp(G_list, q_cart, q_dir_cart, eps, pos, Lambda, tol):
    """numpy reference model of c/dynmat.c:get_dd (reciprocal-space dipole-dipole sum before the Born charges)."""
    K = np.asarray(G_list) + np.asarray(q_cart)[None, :]
    norm = np.linalg.norm(K, axis=1)
    dp = np.einsum("gi,ij,gj->g", K, eps, K)
    KK = np.zeros((len(K), 3, 3))
    big = norm >= tol
    KK[big] = (K[big, :, None] * K[big, None, :]) / dp[big, None, None] * np.exp(-dp[big] / (4 * Lambda * Lambda))[:, None, None]
    if q_dir_cart is not None and (~big).any():
        qd = np.asarray(q_dir_cart)
        KK[~big] = np.outer(qd, qd) / float(qd @ eps @ qd)
    dpos = pos[:, None, :] - pos[None, :, :]
    phase = np.exp(2j * np.pi * np.einsum("ijk,gk->ijg", dpos, np.asarray(G_list)))
    return np.einsum("gab,ijg->iajb", KK, phase)


def ref_recip_dipole_dipole(dm, q_cart, q_dir_cart):
    """Harness reference model for the bound kernels recip_dipole_dipole / recip_dipole_dipole_q0 (no Python version in the
    repository: "Python version of dipole-dipole calculation is not well implemented")."""
    pos = np.array(dm._pcell.positions)
    born, eps = np.array(dm._born), np.array(dm._dielectric)
    tol = dm.Q_DIRECTION_TOLERANCE
    t0 = _ref_dd_tmp(dm._G_list, np.zeros(3), None, eps, pos, dm._Lambda, tol)
    d0 = np.einsum("imjn,imk,jnl->ikjl", t0, born, born).sum(axis=2)  # (i, k, l)
    q0 = 0.5 * (d0.real + d0.real.transpose(0, 2, 1)) + 0.5j * (d0.imag - d0.imag.transpose(0, 2, 1))
    t = _ref_dd_tmp(dm._G_list, q_cart, q_dir_cart, eps, pos, dm._Lambda, tol)
    dd = np.einsum("imjn,imk,jnl->ikjl", t, born, born)
    for i in range(len(pos)):
        dd[i, :, i, :] -= q0[i]
    return dd * (dm._unit_conversion * 4.0 * np.pi / dm._pcell.volume), q0


def drv_thm_iw(ph, w, a, st):
    from phonopy.structure.tetrahedron_method import TetrahedronMethod

    rng = np.random.Generator(np.random.PCG64(st["seed"] & 0xFFFFFFFF))
    rec = np.linalg.inv(ph.primitive.cell)
    # one process may serve several lattices: two unrelated ones first (their main diagonals differ), then this run's
    for other in ([[1.0, 0.6, 0.0], [0.0, 1.0, 0.6], [0.6, 0.0, 1.0]], [[1.0, -0.6, 0.0], [0.0, 1.0, -0.6], [-0.6, 0.0, 1.0]]):
        TetrahedronMethod(np.array(other), mesh=[2, 2, 2], lang=st.get("lang", "C"))
    thm = TetrahedronMethod(rec, mesh=_mesh_for_dos(a), lang=st.get("lang", "C"))
    # vertex values from one smooth function on the grid, evaluated at each implementation's own relative grid
    # addresses (the C and Python versions order the 24 tetrahedra differently)
    k = rng.random(3) * 1.5 + 0.2
    ph0 = rng.random() * 6
    rga = np.array(thm.tetrahedra, dtype="double")  # (24, 4, 3)
    t_omegas = np.array(3.5 + 2.5 * np.sin(rga @ k + ph0), dtype="double", order="C")
    if a["classical"]:  # reuse a seeded flag: flat function along one axis -> degenerate vertices
        t_omegas = np.array(3.5 + 2.5 * np.sin(rga[:, :, 0] * k[0] + ph0), dtype="double", order="C")
    thm.set_tetrahedra_omegas(t_omegas)
    omegas = np.array(np.linspace(0.5, 6.5, 5 + 7 * len(a["qpoints"])), dtype="double")
    thm.run(omegas, value=a["thm_value"])
    return {"iw": np.array(thm.get_integration_weight())}


def drv_qp_gv(ph, w, a, st):
    # exact non-zero reciprocal lattice vectors are mapped to Gamma: with nac_q_direction the OpenMP and the serial
    # branch of QpointsPhonon treat q=G differently (a Python-layer matter decided under C14, finding F-G), and this
    # driver is about the kernels
    qs = [[0.0, 0.0, 0.0] if all(abs(x - round(x)) < 1e-5 for x in q) else q for q in a["qpoints"]]
    ph.run_qpoints(qs, with_group_velocities=True, nac_q_direction=a["nac_q_direction"])
    d = ph.get_qpoints_dict()
    f = d["frequencies"]
    return {"eig": np.sign(f) * f * f, "gv": d["group_velocities"]}


def drv_dm_at_q_direct(ph, w, a, st):
    """dym_get_dynamical_matrix_at_q(use_openmp=1): no Python caller passes 1 today; the exported symbol is driven
    directly with arguments taken from a real DynamicalMatrix (declared as such in the evidence)."""
    import ctypes

    from phonopy.harmonic.dynamical_matrix import DynamicalMatrix
    from phonopy.structure.cells import sparse_to_dense_svecs

    name = st["variant"]
    lib = st["libs"].get(name)
    if lib is None:
        return {}
    dm = ph.dynamical_matrix
    fc = np.ascontiguousarray(dm.force_constants, dtype="double")
    svecs, multi = ph.primitive.get_smallest_vectors()
    if not ph.primitive.store_dense_svecs:
        svecs, multi = sparse_to_dense_svecs(svecs, multi)
    svecs = np.ascontiguousarray(svecs, dtype="double")
    multi = np.ascontiguousarray(multi, dtype="int64")
    masses = np.ascontiguousarray(ph.primitive.masses, dtype="double")
    p2s = np.ascontiguousarray(ph.primitive.p2s_map, dtype="int64")
    s2p = np.ascontiguousarray(ph.primitive.s2p_map, dtype="int64")
    npat, nsat = len(p2s), len(s2p)
    is_compact = fc.shape[0] != fc.shape[1]
    if is_compact:
        # same element mapping as phonopy's _get_fc_elements_mapping for compact fc
        p2s_fc = np.arange(npat, dtype="int64")
        s2pp = np.array([ph.primitive.p2p_map[s] for s in s2p], dtype="int64")
    else:
        p2s_fc = p2s
        s2pp = s2p
    fn = lib.dym_get_dynamical_matrix_at_q
    fn.restype = ctypes.c_int64
    P = ctypes.c_void_p
    fn.argtypes = [P, ctypes.c_int64, ctypes.c_int64, P, P, P, P, P, P, P, P, ctypes.c_int64]
    out = {}
    for i, q in enumerate(a["qpoints"][:4]):
        qv = np.array(q, dtype="double")
        dmat = np.zeros((npat * 3, npat * 3), dtype="c16")
        st["register"]([dmat, fc, qv, svecs, multi, masses, s2pp, p2s_fc])
        fn(dmat.ctypes.data, npat, nsat, fc.ctypes.data, qv.ctypes.data, svecs.ctypes.data, multi.ctypes.data, masses.ctypes.data,
           s2pp.ctypes.data, p2s_fc.ctypes.data, None, 1)
        st["unregister"]()
        out["D%d" % i] = dmat
    return out


def drv_tetra_mesh(ph, w, a, st):
    """TetrahedronMesh: phpy_get_tetrahedra_frequenies (parallel over tetrahedra vertices) + integration weights at
    frequency points, plus the single-point and 'all main diagonals' helpers."""
    from phonopy.phonon.tetrahedron_mesh import TetrahedronMesh
    from phonopy.structure.tetrahedron_method import get_all_tetrahedra_relative_grid_address, get_tetrahedra_integration_weight

    lang = st.get("lang", "C")
    if "tm_inputs" not in st:
        ph.run_mesh(_mesh_for_dos(a), is_mesh_symmetry=a["mesh_symmetry"], is_gamma_center=True)
        m = ph.mesh
        st["tm_inputs"] = (np.array(m.frequencies), np.array(m.mesh_numbers), np.array(m.grid_address, dtype="int64"),
                           np.array(m.grid_mapping_table, dtype="int64"), np.array(m.ir_grid_points))
    freqs, mesh, gaddr, gmap, irgp = st["tm_inputs"]
    thm = TetrahedronMesh(ph.primitive, freqs, mesh, gaddr, gmap, irgp, lang=lang)
    fpts = np.linspace(float(freqs.min()) - 0.1, float(freqs.max()) + 0.1, 7 + len(a["qpoints"]))
    thm.set(value=a["thm_value"], frequency_points=fpts, lang=lang)
    out = {}
    for i, iw in enumerate(thm):
        out["iw%d" % i] = np.array(iw)
        if i >= 5:
            break
    if lang == "C":
        out["all_rga"] = np.array(get_all_tetrahedra_relative_grid_address())
        t_om = np.array(3.0 + np.sin(np.arange(96).reshape(24, 4) * 0.37), dtype="double", order="C")
        out["iw_single"] = np.array([get_tetrahedra_integration_weight(x, t_om, function=a["thm_value"]) for x in (2.3, 3.1, 3.9)])
    return out


def svecs_vs_bruteforce(prim, sc, svecs, multi, symprec=1e-5):
    """The harness's own reference for set_smallest_vectors_{sparse,dense} (no in-repository Python version exists): for every
    (supercell atom, primitive atom) pair the returned vectors must be exactly the set of shortest periodic images, each counted
    once.  Returns [largest distance of a returned vector from the brute-force set (angstrom), number of pairs whose multiplicity differs]."""
    import itertools

    from phonopy.structure.cells import sparse_to_dense_svecs

    svecs, multi = np.array(svecs), np.array(multi)
    if multi.ndim == 2:
        svecs, multi = sparse_to_dense_svecs(svecs, multi)
    Ls, Lp = np.array(sc.cell), np.array(prim.cell)
    fs = np.array(sc.scaled_positions)
    imgs = np.array(list(itertools.product(range(-3, 4), repeat=3)), dtype=float)
    worst, multi_bad = 0.0, 0
    for i in range(len(fs)):
        for jp, j in enumerate(prim.p2s_map):
            d0 = fs[i] - fs[j]
            d0 -= np.rint(d0)
            cand = (d0[None, :] + imgs) @ Ls
            dist = np.linalg.norm(cand, axis=1)
            sel = cand[dist < dist.min() + symprec]
            m, adrs = int(multi[i, jp, 0]), int(multi[i, jp, 1])
            if m != len(sel):
                multi_bad += 1
                continue
            got = svecs[adrs:adrs + m] @ Lp
            for g in got:
                worst = max(worst, float(np.min(np.linalg.norm(sel - g[None, :], axis=1))))
            for x in sel:
                worst = max(worst, float(np.min(np.linalg.norm(got - x[None, :], axis=1))))
    return np.array([worst, float(multi_bad)])


def drv_fc_kernels(ph, w, a, st):
    """The serial kernels behind force-constant handling, on the shapes and index maps the Python layer passes:
    distribute_fc2 (finite-difference solver), perm_trans_symmetrize_fc / _compact_fc, transpose_compact_fc (drift
    display), compute_permutation, set_smallest_vectors (sparse / dense), full<->compact conversion, cutoff.  No parallel
    region: what the simulator contributes here is the bounds monitor; C vs serial0 vs the Python fallbacks are compared."""
    import contextlib
    import io

    from phonopy import Phonopy
    from phonopy.harmonic.force_constants import (compact_fc_to_full_fc, full_fc_to_compact_fc, show_drift_force_constants,
                                                  symmetrize_compact_force_constants, symmetrize_force_constants)

    out = {}
    fc_full = st["fc_model"]
    rng = np.random.Generator(np.random.PCG64(st["seed"] & 0xFFFFFFFF))
    noisy = fc_full + 1e-3 * rng.standard_normal(fc_full.shape)
    level = 1 + len(a["qpoints"]) % 3
    if st.get("py_fallback"):
        # only symmetrize_force_constants has an in-repository Python version (the cell construction has none)
        f = np.array(noisy)
        symmetrize_force_constants(f, level=level)
        return {"sym_full": f}
    p2 = Phonopy(ph.unitcell, supercell_matrix=ph.supercell_matrix, primitive_matrix=ph.primitive_matrix, store_dense_svecs=a["dense_svecs"],
                 is_symmetry=not a["classical"], log_level=0)
    svecs, multi = p2.primitive.get_smallest_vectors()
    out["svecs"] = np.array(svecs)
    out["multi"] = np.array(multi)
    out["svecs_vs_bruteforce"] = svecs_vs_bruteforce(p2.primitive, p2.supercell, svecs, multi)
    # model checks for kernels without a Python version (each entry: residual that must vanish)
    model = {}
    pos = np.array(p2.supercell.scaled_positions)
    perms = np.array(p2.primitive.atomic_permutations)
    worst = 0.0
    for prm in perms:
        if sorted(prm.tolist()) != list(range(len(pos))):
            worst = max(worst, 1.0)  # not a permutation
            continue
        dlt = pos[prm] - pos
        dlt -= dlt[0]
        dlt -= np.rint(dlt)
        worst = max(worst, float(np.max(np.abs(dlt))))  # one pure translation moves every atom
    model["atomic_permutations:not-one-translation"] = worst
    out["perms"] = np.array(p2.primitive.atomic_permutations)
    p2.generate_displacements(distance=0.03, is_plusminus=("auto" if a["gamma_center"] else True), is_diagonal=a["mesh_symmetry"])
    p2.forces = w.type1_forces(p2, fc_full)
    p2.produce_force_constants(calculate_full_force_constants=not a["compact"])
    out["fc_fd"] = np.array(p2.force_constants)
    fsc = float(np.max(np.abs(fc_full)))
    want = fc_full if out["fc_fd"].shape[0] == fc_full.shape[0] else fc_full[p2.primitive.p2s_map]
    # exact harmonic forces of a space-group invariant model: the finite-displacement solver must return the model
    model["finite_displacement_fc:differs-from-model"] = float(np.max(np.abs(out["fc_fd"] - want))) / fsc
    f = np.array(noisy)
    symmetrize_force_constants(f, level=level)
    out["sym_full"] = f
    c = np.ascontiguousarray(noisy[p2.primitive.p2s_map])
    symmetrize_compact_force_constants(c, p2.primitive, level=level)
    out["sym_compact"] = c
    c2 = np.ascontiguousarray(noisy[p2.primitive.p2s_map])
    with contextlib.redirect_stdout(io.StringIO()):
        show_drift_force_constants(c2, primitive=p2.primitive)  # transposes twice in place: must come back unchanged
    out["transposed_twice"] = c2
    out["c2f"] = compact_fc_to_full_fc(p2.primitive, np.ascontiguousarray(fc_full[p2.primitive.p2s_map]))
    out["f2c"] = full_fc_to_compact_fc(p2.primitive, np.array(fc_full))
    model["compact_to_full:differs-from-model"] = float(np.max(np.abs(out["c2f"] - fc_full))) / fsc
    model["full_to_compact:differs-from-model"] = float(np.max(np.abs(out["f2c"] - fc_full[p2.primitive.p2s_map]))) / fsc
    # compact kernels against their full-array counterparts on force constants that are translation invariant by
    # construction (expanded from a compact array) but have NO index-permutation symmetry: every 3x3 block then shows
    # whether it was transposed / averaged with the right partner (pairs i, i + t with 2t a supercell vector are their own partner)
    import phonopy._phonopy as phonoc
    from phonopy.harmonic.force_constants import get_nsym_list_and_s2pp

    prim = p2.primitive
    rc_ = np.random.Generator(np.random.PCG64((st["seed"] ^ 0x5A5A) & 0xFFFFFFFF))
    cc = np.array(rc_.standard_normal((len(prim), len(p2.supercell), 3, 3)), dtype="double", order="C")
    Fc = compact_fc_to_full_fc(prim, cc.copy())
    s2pp_, nsym_ = get_nsym_list_and_s2pp(prim.s2p_map, prim.p2p_map, prim.atomic_permutations)
    ct = cc.copy()
    phonoc.transpose_compact_fc(ct, prim.atomic_permutations, s2pp_, prim.p2s_map, nsym_)
    out["transposed_compact_random"] = ct
    model["transpose_compact_fc:differs-from-full-array-transpose"] = float(np.max(np.abs(ct - Fc.transpose(1, 0, 3, 2)[prim.p2s_map])))
    cs = cc.copy()
    symmetrize_compact_force_constants(cs, prim, level=level)
    Fs = Fc.copy()
    symmetrize_force_constants(Fs, level=level)
    out["sym_compact_random"] = cs
    model["perm_trans_symmetrize_compact_fc:differs-from-full-array-routine"] = float(np.max(np.abs(cs - Fs[prim.p2s_map])))
    out["model_residuals"] = np.array([model[k] for k in sorted(model)])
    st["model_residual_names"] = sorted(model)
    p2.force_constants = np.array(fc_full)
    p2.set_force_constants_zero_with_radius(2.5 + 0.5 * len(a["temperatures"]))
    out["cutoff"] = np.array(p2.force_constants)
    return out


DRV = dict(tetra_mesh=drv_tetra_mesh, fc_kernels=drv_fc_kernels, dm_batch=drv_dm_batch, mesh_tp=drv_mesh_tp, dos=drv_dos, pdos=drv_pdos, ddm=drv_ddm, d2f=drv_d2f, gl_perq=drv_gl_perq,
           thm_iw=drv_thm_iw, qp_gv=drv_qp_gv, tp_direct=drv_tp_direct, dm_at_q_direct=drv_dm_at_q_direct)
PY_LANG = {"ddm", "d2f", "thm_iw", "tetra_mesh"}  # drivers with an in-repository Python version selectable by lang=


def _scale(x):
    x = np.asarray(x)
    if x.size == 0:
        return 1.0
    m = float(np.max(np.abs(x)))
    return m if m > 0 else 1.0


def compare(out, ref, rtol, atol=1e-13):
    """[(name, maxdiff, scale)] for outputs that differ by more than rtol*scale (NaN-aware)."""
    bad = []
    bit = 0
    for k in ref:
        a, b = np.asarray(out.get(k)), np.asarray(ref[k])
        if a.shape != b.shape:
            bad.append((k, float("inf"), 0.0))
            continue
        if a.tobytes() == b.tobytes():
            bit += 1
            continue
        fa, fb = np.isfinite(a), np.isfinite(b)
        if not np.array_equal(fa, fb):
            bad.append((k, float("inf"), _scale(b[fb]) if fb.any() else 0.0))
            continue
        d = float(np.max(np.abs(a[fa] - b[fb]))) if fa.any() else 0.0
        s = _scale(b[fb]) if fb.any() else 1.0
        if d > rtol * s + atol:
            bad.append((k, d, s))
    return bad, bit


# ------------------------------------------------------------------ execution of one run (in a forked child)
def execute(spec):
    import ctypes
    import os

    E = _E
    variant = spec.get("variant", "sim")
    if variant not in E.mods:
        variant = "sim"
    sim = E.sims[variant]
    w = World(spec["world"])
    a = spec["args"]
    driver = spec["driver"]
    fn = DRV[driver]
    violations = []
    probes = {}
    faults = {}
    log = []
    st = {"seed": spec["seed"], "variant": variant, "libs": {k: s.lib for k, s in E.sims.items()}}
    # direct-call registration of buffers with the bounds monitor (only used by dm_at_q_direct)
    def _register(arrs):
        sim.lib.simhook_call_begin(b"dym_get_dynamical_matrix_at_q(direct)")
        for x in arrs:
            sim.lib.simhook_register_buffer(ctypes.c_void_p(x.ctypes.data), ctypes.c_size_t(x.nbytes), 1)
        sim.lib.simhook_arm()
    st["register"] = _register
    st["unregister"] = lambda: sim.lib.simhook_call_end()

    rfd, wfd = os.pipe()
    sim.set_report_fd(wfd)

    def check_monitors(tag):
        for o in sim.oob():
            site = "%s@%s" % (o["kernel"], sim.symbolize(o["pc"]))
            violations.append({"class": "oob", "site": site, "detail": dict(o, where=tag)})

    # 0. the one kernel that reports about the runtime: omp_max_threads must say what the (simulated) runtime says
    E.use(variant)
    for T_ in (1, 3, 7):
        sim.configure(dict(seed=0, team=T_, policy="order"))
        got_T = int(E.mods[variant].omp_max_threads())
        if got_T != T_:
            violations.append({"class": "reference-divergence", "site": "omp_max_threads", "detail": dict(reported=got_T, runtime_team=T_, ref="omp_get_max_threads() of the simulated runtime")})
            break
    # 1. world construction and reference run on the simulator at T=1 (serial kernels run under the bounds monitor)
    E.use(variant)
    sim.serial()
    ph = w.build(compact=a["compact"], store_dense_svecs=a["dense_svecs"])
    st["fc_model"] = w.force_constants(ph.supercell)
    st_build = sim.stats()
    check_monitors("world construction")
    probes["kernel_accesses_checked_in_world_construction"] = st_build["bounds_checked"]
    sim.serial()
    _reset(ph)
    ref = fn(ph, w, a, st)
    st_ref = sim.stats()
    check_monitors("T=1 reference")
    ev_ref = st_ref["events"]
    regions_ref = max(1, st_ref["regions"])
    log.append(("ref", driver, core.digest(ref), ev_ref, st_ref["regions"]))
    steps = {"instrumented_access_events": ev_ref, "parallel_regions": st_ref["regions"], "nested_regions": st_ref["nested_regions"],
             "bounds_checked_accesses": st_ref["bounds_checked"] + st_build["bounds_checked"], "context_switches": 0, "schedules": 0}
    if st_ref["regions"] == 0:
        probes["driver_reached_no_parallel_region"] = 1

    sigs, sigs_nt = [], []
    inp_digest = core.digest([spec["world"], driver, a])
    race_pcs = {}
    bit_identical = 0
    compared = 0
    scheds = [dict(s) for s in spec["schedules"]]
    if driver == "fc_kernels":
        scheds = scheds[:1]  # serial kernels: no schedule dimension
    i = 0
    extra_directed = 0
    trace_out = None
    while i < len(scheds):
        s = scheds[i]
        i += 1
        if s.get("policy") == "pct" and not s.get("p2"):
            s["p2"] = max(1, ev_ref // regions_ref)
        _reset_ok = True
        sim.serial()
        _reset(ph)
        cap = 3 * ev_ref + 400000
        record = bool(spec.get("capture_trace")) and i == 1
        sim.configure(s, max_events=cap, record=record)
        out = fn(ph, w, a, st)
        ss = sim.stats()
        if record:
            trace_out = sim.trace()
        check_monitors("schedule %d" % (i - 1))
        bad, bit = compare(out, ref, 1e-10)
        compared += len(ref)
        bit_identical += bit
        for name, d, sc in bad:
            violations.append({"class": "schedule-divergence", "site": "%s:%s" % (driver, name),
                               "detail": dict(maxdiff=d, scale=sc, schedule={k: v for k, v in s.items() if k != "trace"}, schedule_index=i - 1,
                                              switches=ss["switches"], events=ss["events"])})
        steps["instrumented_access_events"] += ss["events"]
        steps["context_switches"] += ss["switches"]
        steps["parallel_regions"] += ss["regions"]
        steps["nested_regions"] += ss["nested_regions"]
        steps["bounds_checked_accesses"] += ss["bounds_checked"]
        steps["schedules"] += 1
        faults["schedule:%s" % s["policy"]] = faults.get("schedule:%s" % s["policy"], 0) + 1
        if ss["switches"] > 0:
            faults["preemptive_context_switches"] = faults.get("preemptive_context_switches", 0) + ss["switches"]
        if ss["empty_chunks"]:
            probes["threads_with_empty_chunk"] = probes.get("threads_with_empty_chunk", 0) + ss["empty_chunks"]
        if ss["nested_regions"]:
            probes["nested_region_entered"] = probes.get("nested_region_entered", 0) + ss["nested_regions"]
        if ss["max_team"] > 8:
            probes["team_larger_than_8"] = probes.get("team_larger_than_8", 0) + 1
        if ss["shadow_overflow"]:
            probes["race_shadow_overflow"] = probes.get("race_shadow_overflow", 0) + 1
        rp = sim.race_pcs()
        for pc, n, ww in rp:
            race_pcs[pc] = race_pcs.get(pc, 0) + n
        sig = core.digest([driver, inp_digest, s["team"], s["policy"], ss["switches"], ss["events"]])
        sigs.append(sig)
        if ss["max_team"] > 1 and (ss["switches"] > 0 or s["policy"] in ("order", "pct", "rand", "directed")) and ss["regions"] > 0:
            if ss["switches"] > 0 or s["policy"] == "order":
                sigs_nt.append(sig)
        log.append(("sched", i - 1, s["team"], s["policy"], ss["events"], ss["switches"], core.digest(out)))
        # race candidates feed directed schedules on the same input
        if race_pcs and extra_directed < 3 and i == len(scheds) and not spec.get("no_directed"):
            extra_directed += 1
            rng = core.rng_of(spec["seed"], "directed", extra_directed)
            scheds.append(dict(seed=rng.getrandbits(63), team=rng.choice([2, 3, 4]), policy="directed", pcs=sorted(race_pcs)[:128], p1=1, p2=4096))
    if race_pcs:
        probes["runs_with_race_candidates"] = 1
        probes["race_candidate_sites"] = {sim.symbolize(pc): n for pc, n in sorted(race_pcs.items())[:8]}

    # 2. OpenMP compiled in or not: same optimisation level without -fopenmp
    if "serial0" in E.mods and not spec.get("only_schedules") and driver != "dm_at_q_direct":
        E.use("serial0")
        _reset(ph)
        out = fn(ph, w, a, st)
        # F carries the zero-point energy, which phonopy sums over f > 0 (not over f > cutoff): an acoustic Gamma mode of
        # +-1e-7 THz (noise whose sign differs between the batched and the per-q solver) moves F by ~1e-8 kJ/mol
        bad, bit = compare(out, ref, 1e-10, atol=(1e-6 if driver == "mesh_tp" else 1e-13))
        for name, d, sc in bad:
            violations.append({"class": "build-divergence", "site": "%s:%s" % (driver, name), "detail": dict(maxdiff=d, scale=sc, builds="sim(T=1) vs serial0")})
        steps["build_comparisons"] = 1
        log.append(("serial0", core.digest(out)))
        E.use(variant)

    # 3. in-repository Python reference (a sample, moderate tolerance)
    if not spec.get("only_schedules"):
        pyref = None
        if driver in PY_LANG and not (driver == "ddm" and (a["compact"] or (ph.nac_params is not None and ph.nac_params.get("method") != "wang"))):
            E.use("serial")
            st2 = dict(st, lang="Py")
            for k in ("d2f_dm", "d2f_q", "tm_inputs"):
                if k in st:
                    st2[k] = st[k]
            _reset(ph)
            pyref = fn(ph, w, a, st2)
            E.use(variant)
        elif driver == "fc_kernels":
            E.use("none")
            try:
                pyref = fn(ph, w, a, dict(st, py_fallback=True))
            finally:
                E.use(variant)
            # the pure-Python construction (compute_permutation fallback) must give the same index maps; the Python
            # symmetriser the same force constants
            pyref = {"sym_full": pyref["sym_full"]}
            sv = ref.get("svecs_vs_bruteforce")
            if sv is not None and (sv[0] > 1e-6 or sv[1] > 0):
                violations.append({"class": "reference-divergence", "site": "fc_kernels:smallest_vectors",
                                   "detail": dict(max_distance_from_shortest_image_set=float(sv[0]), pairs_with_wrong_multiplicity=int(sv[1]),
                                                  dense=bool(a["dense_svecs"]), ref="brute-force shortest periodic images (harness reference model)")})
            probes["smallest_vectors_checked_against_brute_force"] = 1
            from .world import CRYSTALS as _CR

            res_tol = 1e-5 if _CR[spec["world"]["crystal"]].get("inexact") else 1e-8
            for nm, val in zip(st.get("model_residual_names", []), ref.get("model_residuals", [])):
                if not (val <= (res_tol if "differs-from-model" in nm else 1e-8)):
                    violations.append({"class": "reference-divergence", "site": "fc_kernels:" + nm,
                                       "detail": dict(residual=float(val), ref="harness reference model (translation-invariant spring model)")})
        elif driver == "mesh_tp":
            E.use("serial")
            _reset(ph)
            fn(ph, w, a, st)
            ph.thermal_properties.run(lang="Py")
            d = ph.get_thermal_properties_dict()
            pyref = {"F": np.array(d["free_energy"]), "S": np.array(d["entropy"]), "Cv": np.array(d["heat_capacity"])}
            E.use(variant)
        elif (driver == "dm_batch" and ph.nac_params is not None and type(ph.dynamical_matrix).__name__ == "DynamicalMatrixWang"
              and ph.force_constants.shape[0] == ph.force_constants.shape[1]):
            # Wang NAC: the in-repository Python pieces (charge sum, constant factor, NAC-modified force constants, the
            # Python dynamical-matrix builder), with the batch kernel's rule that the direction applies at Gamma only
            E.use("serial")
            dmw = ph.dynamical_matrix
            rec = np.array(dmw._rec_lat)
            qd = a["nac_q_direction"]
            dms = []
            for q in a["qpoints"]:
                q = np.array(q, dtype="double")
                q_cart = rec @ q
                if np.linalg.norm(q_cart) < 1e-5:
                    qc = None if qd is None else rec @ np.array(qd, dtype="double")
                else:
                    qc = q_cart
                if qc is None:
                    dmw._run(q, lang="Py")
                else:
                    constant = dmw._get_constant_factor(qc, dmw._dielectric, dmw._pcell.volume, dmw._unit_conversion)
                    nac_q = dmw._get_charge_sum(len(dmw._pcell), qc, dmw._born) * constant
                    backup = dmw._force_constants.copy()
                    dmw._run_py_Wang_force_constants(dmw._force_constants, nac_q)
                    dmw._run(q, lang="Py")
                    dmw._force_constants[:] = backup
                dms.append(np.array(dmw.dynamical_matrix).copy())
            pyref = {"dynmat": np.array(dms)}
            probes["wang_nac_python_reference"] = 1
            E.use(variant)
        elif driver == "dm_batch" and ph.nac_params is None:
            E.use("serial")
            dms = []
            for q in a["qpoints"]:
                ph.dynamical_matrix.run(np.array(q, dtype="double"), lang="Py")
                dms.append(ph.dynamical_matrix.dynamical_matrix.copy())
            pyref = {"dynmat": np.array(dms)}
            E.use(variant)
        if driver == "gl_perq" and type(ph.dynamical_matrix).__name__ == "DynamicalMatrixGL" and not getattr(ph.dynamical_matrix, "_with_full_terms", False):
            # the Gonze-Lee reciprocal-space kernels against the harness's numpy model, at this run's q-points and direction
            E.use("serial")
            dm = ph.dynamical_matrix
            if getattr(dm, "_dd_q0", None) is None:  # the driver's q-points were all at Gamma without direction: dataset not built yet
                dm.make_Gonze_nac_dataset()
            rec = np.linalg.inv(np.array(dm._pcell.cell))  # columns: reciprocal basis
            worst, scale_ = 0.0, 1e-300
            qd = a["nac_q_direction"]
            # besides the run's q-points: Gamma, and q-points close to (but not at) Gamma, where the "K = G + q is zero" test decides
            for q in list(a["qpoints"][:4]) + [[0.0, 0.0, 0.0], [1e-3, 0.0, 0.0], [0.0, 3e-4, -2e-4], [2e-5, 2e-5, 0.0]]:
                q_cart = rec @ np.array(q, dtype="double")
                qd_cart = None if qd is None else rec @ np.array(qd, dtype="double")
                got = np.array(dm._get_c_recip_dipole_dipole(np.array(q_cart, dtype="double"), None if qd_cart is None else np.array(qd_cart, dtype="double")))
                want, q0 = ref_recip_dipole_dipole(dm, q_cart, qd_cart)
                worst = max(worst, float(np.max(np.abs(got - want))))
                scale_ = max(scale_, float(np.max(np.abs(want))))
            d0 = float(np.max(np.abs(np.array(dm._dd_q0) - q0)))
            if worst > 1e-9 * scale_:
                violations.append({"class": "reference-divergence", "site": "gl_perq:recip_dipole_dipole", "detail": dict(maxdiff=worst, scale=scale_, ref="harness numpy model of c/dynmat.c get_dd/multiply_borns")})
            if d0 > 1e-9 * max(1e-300, float(np.max(np.abs(q0)))):
                violations.append({"class": "reference-divergence", "site": "gl_perq:recip_dipole_dipole_q0", "detail": dict(maxdiff=d0, ref="harness numpy model")})
            probes["gonze_kernels_checked_against_numpy_model"] = 1
            E.use(variant)
        if pyref is not None:
            # absolute floor on the natural scale of the quantity (thermal properties are O(1..100) kJ/mol, J/K/mol; a
            # 1e-8 kJ/mol difference between the C and the Python formula is constant/rounding noise, not a divergence)
            if driver == "tetra_mesh":
                ref_cmp = {k: v for k, v in ref.items() if k in pyref}
            else:
                ref_cmp = ref
            bad, _ = compare(ref_cmp, pyref, 1e-8, atol=(1e-6 if driver == "mesh_tp" else 1e-10))
            for name, d, sc in bad:
                violations.append({"class": "reference-divergence", "site": "%s:%s" % (driver, name), "detail": dict(maxdiff=d, scale=sc, ref="in-repository Python version")})
            steps["python_reference_comparisons"] = 1

    sim.set_report_fd(-1)
    os.close(wfd)
    os.close(rfd)
    probes["kernel_calls_on_simulated_runtime"] = sim.kernel_counts()
    probes["outputs_compared"] = compared
    probes["outputs_bit_identical"] = bit_identical
    res = {
        "digest": core.digest(log),
        "violations": violations,
        "sigs": sigs,
        "sigs_nontrivial": sigs_nt,
        "faults": faults,
        "probes": probes,
        "steps": steps,
        "sample": {"seed": spec["seed"], "world": {k: spec["world"][k] for k in ("crystal", "supercell_matrix", "primitive_matrix", "nac")},
                   "driver": driver, "schedules": [{k: v for k, v in s.items() if k not in ("pcs", "trace")} for s in scheds][:3],
                   "T1_events": ev_ref, "regions": st_ref["regions"]},
    }
    if trace_out is not None:
        res["trace"] = trace_out
    return res


# ------------------------------------------------------------------ minimisation
def shrink_candidates(spec):
    spec = copy.deepcopy(spec)
    # a. one schedule only
    if len(spec["schedules"]) > 1:
        for s in spec["schedules"]:
            c = dict(spec, schedules=[s], only_schedules=True, no_directed=True)
            yield c
    if not spec.get("only_schedules"):
        yield dict(spec, only_schedules=True, no_directed=True)
    # b. smaller arguments
    a = spec["args"]
    if len(a["qpoints"]) > 1:
        h = len(a["qpoints"]) // 2
        yield dict(spec, args=dict(a, qpoints=a["qpoints"][:h]))
        yield dict(spec, args=dict(a, qpoints=a["qpoints"][h:]))
    if len(a["temperatures"]) > 1:
        yield dict(spec, args=dict(a, temperatures=a["temperatures"][:1]))
    if any(m > 2 for m in a["mesh"]):
        yield dict(spec, args=dict(a, mesh=[min(2, m) for m in a["mesh"]]))
    # c. smaller team
    if len(spec["schedules"]) == 1:
        s = spec["schedules"][0]
        if s.get("policy") != "replay" and s.get("team", 2) > 2:
            yield dict(spec, schedules=[dict(s, team=2)])
        # d. turn the PRNG-driven schedule into an explicit switch list, then ddmin it
        if s.get("policy") != "replay":
            o = core.call_isolated(execute, dict(spec, capture_trace=True))
            if o.kind == "ok" and o.value.get("trace") is not None and len(o.value["trace"]) <= 200000:
                yield dict(spec, schedules=[dict(policy="replay", team=s["team"], trace=o.value["trace"])])
        else:
            tr = s["trace"]
            n = len(tr)
            chunk = n // 2
            while chunk >= 1:
                for start in range(0, n, chunk):
                    yield dict(spec, schedules=[dict(s, trace=tr[:start] + tr[start + chunk:])])
                if chunk == 1:
                    break
                chunk //= 2

"""Load the extension variants side by side and drive the simulator.

phonopy imports ``phonopy._phonopy`` inside functions at call time, so swapping
``sys.modules['phonopy._phonopy']`` (and the attribute on the package) switches
the build for every subsequent call.
"""

from __future__ import annotations

import ctypes
import importlib.machinery
import importlib.util
import os
import subprocess
import sys

from . import build as _build

POL = {"rand": 0, "rr": 1, "order": 2, "pct": 3, "directed": 4, "replay": 5}


class TraceEntry(ctypes.Structure):
    _fields_ = [("ev", ctypes.c_uint64), ("thr", ctypes.c_int32), ("kind", ctypes.c_int32)]


class Sim:
    """ctypes handle to csim/simgomp.c inside one loaded V_sim library."""

    STAT_NAMES = [
        "events", "switches", "regions", "race_candidates", "bounds_checked", "oob",
        "nested_regions", "empty_chunks", "max_team", "inline_regions", "shadow_overflow", "live_blocks",
    ]

    def __init__(self, path: str):
        self.path = path
        self.lib = ctypes.CDLL(path)
        L = self.lib
        L.sim_configure.argtypes = [ctypes.c_uint64, ctypes.c_int, ctypes.c_int, ctypes.c_uint64, ctypes.c_uint64, ctypes.c_uint64, ctypes.c_int]
        L.sim_configure.restype = None
        L.sim_stats.argtypes = [ctypes.POINTER(ctypes.c_uint64)]
        L.sim_set_replay.argtypes = [ctypes.POINTER(TraceEntry), ctypes.c_size_t]
        L.sim_get_trace.argtypes = [ctypes.POINTER(TraceEntry), ctypes.c_size_t]
        L.sim_get_trace.restype = ctypes.c_size_t
        L.sim_set_directed.argtypes = [ctypes.POINTER(ctypes.c_size_t), ctypes.c_int]
        L.sim_set_report_fd.argtypes = [ctypes.c_int]
        L.sim_race_pcs.argtypes = [ctypes.POINTER(ctypes.c_size_t), ctypes.POINTER(ctypes.c_uint64), ctypes.POINTER(ctypes.c_int), ctypes.c_int]
        L.sim_race_pcs.restype = ctypes.c_int
        L.sim_get_oob.argtypes = [
            ctypes.c_int, ctypes.c_char_p, ctypes.POINTER(ctypes.c_size_t), ctypes.POINTER(ctypes.c_int), ctypes.POINTER(ctypes.c_int),
            ctypes.POINTER(ctypes.c_int), ctypes.POINTER(ctypes.c_int64), ctypes.POINTER(ctypes.c_uint64),
        ]
        L.sim_get_oob.restype = ctypes.c_int
        L.sim_image_base.restype = ctypes.c_size_t
        L.sim_kernel_count.argtypes = [ctypes.c_int, ctypes.c_char_p, ctypes.POINTER(ctypes.c_uint64)]
        L.sim_kernel_count.restype = ctypes.c_int
        self._replay_keep = None
        self._sym_cache = {}

    # schedule = dict(seed, team, policy, p1, p2) or dict(policy="replay", team, trace=[(ev,thr,kind),...])
    def configure(self, sched: dict, max_events: int = 0, record: bool = False):
        pol = sched.get("policy", "rand")
        if pol == "replay":
            tr = sched.get("trace", [])
            arr = (TraceEntry * max(1, len(tr)))()
            for i, (ev, thr, kind) in enumerate(tr):
                arr[i].ev, arr[i].thr, arr[i].kind = ev, thr, kind
            self._replay_keep = arr
            self.lib.sim_set_replay(arr, len(tr))
        if pol == "directed":
            pcs = sched.get("pcs", [])
            arr = (ctypes.c_size_t * max(1, len(pcs)))(*pcs)
            self.lib.sim_set_directed(arr, len(pcs))
        self.lib.sim_configure(
            int(sched.get("seed", 0)) & (2**64 - 1), int(sched.get("team", 1)), POL[pol],
            int(sched.get("p1", 0)), int(sched.get("p2", 1)), int(max_events), 1 if record else 0,
        )

    def serial(self):
        """T=1, no pre-emption: the reference schedule."""
        self.configure(dict(seed=0, team=1, policy="order"))

    def stats(self) -> dict:
        out = (ctypes.c_uint64 * 16)()
        self.lib.sim_stats(out)
        return {n: int(out[i]) for i, n in enumerate(self.STAT_NAMES)}

    def trace(self):
        n = self.lib.sim_get_trace(None, 0)
        arr = (TraceEntry * max(1, n))()
        self.lib.sim_get_trace(arr, n)
        return [(int(arr[i].ev), int(arr[i].thr), int(arr[i].kind)) for i in range(n)]

    def race_pcs(self):
        cap = 128
        pcs = (ctypes.c_size_t * cap)()
        ns = (ctypes.c_uint64 * cap)()
        ww = (ctypes.c_int * cap)()
        n = self.lib.sim_race_pcs(pcs, ns, ww, cap)
        return [(int(pcs[i]), int(ns[i]), int(ww[i])) for i in range(n)]

    def oob(self):
        res = []
        i = 0
        while True:
            kern = ctypes.create_string_buffer(64)
            pc = ctypes.c_size_t()
            w = ctypes.c_int()
            sz = ctypes.c_int()
            near = ctypes.c_int()
            off = ctypes.c_int64()
            cnt = ctypes.c_uint64()
            if not self.lib.sim_get_oob(i, kern, ctypes.byref(pc), ctypes.byref(w), ctypes.byref(sz), ctypes.byref(near), ctypes.byref(off), ctypes.byref(cnt)):
                break
            res.append(dict(kernel=kern.value.decode(), pc=int(pc.value), write=int(w.value), size=int(sz.value),
                            nearest_arg=int(near.value), offset=int(off.value), count=int(cnt.value)))
            i += 1
        return res

    def kernel_counts(self) -> dict:
        """calls per bound kernel since the library was loaded (in this process)"""
        out = {}
        i = 0
        while True:
            name = ctypes.create_string_buffer(64)
            n = ctypes.c_uint64()
            if not self.lib.sim_kernel_count(i, name, ctypes.byref(n)):
                break
            out[name.value.decode()] = int(n.value)
            i += 1
        return out

    def set_report_fd(self, fd: int):
        self.lib.sim_set_report_fd(fd)

    def symbolize(self, pc_off: int) -> str:
        """function and source line of an offset into the library image (address independent)."""
        if pc_off in self._sym_cache:
            return self._sym_cache[pc_off]
        try:
            r = subprocess.run(["addr2line", "-f", "-e", self.path, hex(pc_off)], capture_output=True, text=True, timeout=20).stdout.split("\n")
            s = r[0] + " " + os.path.basename(r[1])
        except Exception:
            s = hex(pc_off)
        self._sym_cache[pc_off] = s
        return s


def _load_module(path: str):
    loader = importlib.machinery.ExtensionFileLoader("phonopy._phonopy", path)
    spec = importlib.util.spec_from_file_location("phonopy._phonopy", path, loader=loader)
    mod = importlib.util.module_from_spec(spec)
    loader.exec_module(mod)
    return mod


class Ext:
    """All built variants, loaded in this interpreter."""

    def __init__(self, variants=("sim", "serial")):
        paths = _build.build(tuple(variants))
        repo = _build.repo_root()
        if repo not in sys.path:
            sys.path.insert(0, repo)
        import phonopy  # noqa: F401  (the working tree's python layer)

        self.paths = paths
        self.mods = {}
        self.sims = {}
        for name, p in paths.items():
            self.mods[name] = _load_module(p)
            if name.startswith("sim"):
                self.sims[name] = Sim(p)
        self.current = None
        self.use("serial" if "serial" in self.mods else next(iter(self.mods)))

    def use(self, name: str):
        import phonopy

        if name == "none":
            # no compiled extension: `import phonopy._phonopy` raises ImportError and the in-repository Python fallbacks run
            sys.modules["phonopy._phonopy"] = None
            if hasattr(phonopy, "_phonopy"):
                del phonopy._phonopy
            self.current = "none"
            return None
        m = self.mods[name]
        sys.modules["phonopy._phonopy"] = m
        phonopy._phonopy = m
        self.current = name
        return m

    @property
    def sim(self) -> Sim:
        return self.sims[self.current if self.current in self.sims else "sim"]

"""C15 — a Phonopy object always answers from its current state, whatever its history.

Deciding method: seeded operation histories over the public state-changing API
(with queries interleaved, operations that must raise, copy() forks, build
swaps and thread schedules as per-run knobs) executed against a reference model
that has no history: at every checkpoint a *fresh* Phonopy object is built from
the harness's model of the current state and asked the same question.  Caller
faults: the caller scribbles on arrays it was handed out.  Arrays the harness
hands in are compared bit-for-bit with private copies after every operation.
"""

from __future__ import annotations

import copy

import numpy as np

from . import core
from .world import World, qpoint_pool, CRYSTALS

PROP = "C15"
CRASH_IS_VIOLATION = True  # a legal API history that kills the interpreter is as stale as an answer can get
RUN_TIMEOUT = 900.0
SHRINK_BUDGET = 80
RULE = (
    "one evaluation = one seeded history (2..14 operations over set/produce/symmetrise/cut-off force constants, NAC, masses, dataset, "
    "displacement generation, copy(), operations that must raise, queries, caller scribbles on handed-out data, build swaps) executed "
    "on a real Phonopy object and checked step by step against a freshly constructed object; distinct = distinct sequence of operation "
    "kinds (with fault kinds and build variant); non-trivial = the history contains at least two state-changing operations followed by "
    "a query, or at least one injected fault that actually fired"
)
ASSUMPTIONS = [
    "the reference model is a freshly constructed Phonopy object fed with the harness's own record of the final state (what was set; "
    "for operations whose effect is computed by phonopy itself - symmetrise, cut-off, produce - the state phonopy reports right after the operation)",
    "lazily initialised result objects created before a state change are not queried (the property speaks of subsequent results)",
    "hand-in aliasing (phonopy keeping a reference to a caller array) is only a violation when phonopy MODIFIES the caller's array; the property does not forbid keeping the reference",
    "worlds have <= 36 supercell atoms; operations needing symfc/ALM (type-2 fitting) are excluded",
]

STATE_OPS = ["set_fc", "produce_fc", "symmetrize", "symmetrize_sg", "cutoff", "set_nac", "set_masses", "gen_disp", "gen_disp_random",
             "set_forces", "set_dataset", "set_displacements", "gen_disp_temp", "copy", "switch", "invalid"]
QUERY_KINDS = ["qpoints", "mesh", "band", "gv_at_q", "dm_at_q", "freqs", "tp", "disp_cells", "dos"]
GETTERS = ["force_constants", "nac_params", "dataset", "masses", "displacements", "forces", "supercell_matrix", "primitive_matrix",
           "supercell.scaled_positions", "supercell.cell", "supercell.masses", "primitive.masses", "unitcell.scaled_positions",
           "dynamical_matrix.force_constants", "get_mesh_dict.frequencies", "get_qpoints_dict.frequencies", "primitive.p2s_map",
           "symmetry_operations"]

_E = None
_COVER = None


def prepare(tier):
    global _E, _COVER
    if _E is None:
        from .ext import Ext

        _E = Ext(("sim", "serial"))
    _COVER = {}


def components():
    return {
        "real": ["phonopy.Phonopy and everything below it (python from the working tree)", "compiled kernels from the working tree (serial -O2 build; OpenMP build on the simulated runtime)",
                 "numpy/LAPACK (1 thread)", "spglib"],
        "simulated": ["the caller: seeded operation order, scribbles on handed-out data", "OpenMP runtime (when the run's variant is `sim`): seeded team size and schedule"],
        "stub": ["nanobind -> binding shim"],
        "reference_model": "fresh Phonopy object built from the harness's record of the final state",
    }


def n_runs(tier):
    return 2000 if tier == "quick" else 30000


# ------------------------------------------------------------------ history generation (abstract state machine)
def _gen_ops(rng, n_ops, n_prim, world_has_nac, fault_mode, tier):
    ops = []
    planned = {}
    prev_ds_kind = None
    st = dict(fc=None, ds=None, forces=False, copy=False)  # abstract state of the current target
    other = dict(fc=None, ds=None, forces=False, copy=True)
    prev = "start"

    def legal(kind):
        if kind in ("symmetrize", "cutoff"):
            return st["fc"] is not None
        if kind == "symmetrize_sg":
            return st["fc"] == "full"
        if kind == "produce_fc":
            return st["ds"] == 1 and st["forces"]
        if kind == "set_forces":
            return st["ds"] is not None
        if kind == "set_displacements":
            return st["ds"] == 2
        if kind == "gen_disp_temp":
            return st["fc"] is not None
        if kind == "set_nac":
            return world_has_nac
        if kind == "switch":
            return st["copy"]
        if kind == "copy":
            return not st["copy"]
        return True

    def pick():
        cands = []
        for _ in range(4):
            if rng.random() < 0.38:
                k = "query"
            elif fault_mode and rng.random() < 0.22:
                k = "scribble_out"
            else:
                k = rng.choice(STATE_OPS)
            if k in STATE_OPS and not legal(k):
                continue
            cands.append(k)
        if not cands:
            return "set_fc"
        return min(cands, key=lambda k: (_COVER.get((prev, k), 0), rng.random()))

    # every history starts by giving the object force constants (or a dataset), otherwise nothing can be asked
    first = rng.choice(["set_fc", "set_fc", "gen_disp"])
    seq = [first]
    while len(seq) < n_ops:
        seq.append(None)
    repeat = {}
    for i in range(n_ops):
        kind = seq[i] if seq[i] else pick()
        if kind == "set_displacements" and not legal(kind):
            kind = "gen_disp_random"  # planted ahead of time; the dataset type changed meanwhile
        if kind in ("gen_disp_temp", "cutoff") and not legal(kind):
            kind = "set_fc"
        # the classic staleness pattern: setter, query (fills lazily built caches), the same setter with other values,
        # query - planted often enough that every batch contains it for every setter kind.  Half of the time the second
        # query repeats the first one literally (same kind, q-points, mesh numbers and options): result objects kept by the
        # Phonopy object must not be re-used across the state change just because the request is identical
        if (kind in ("set_nac", "set_masses", "set_fc", "cutoff", "symmetrize", "set_forces", "gen_disp", "gen_disp_random", "set_displacements") and legal(kind)
                and i + 3 < n_ops and seq[i + 1] is None and rng.random() < 0.3):
            seq[i + 1], seq[i + 2], seq[i + 3] = "query", ("set_displacements" if kind == "gen_disp_random" else kind), "query"
            if rng.random() < 0.5:
                repeat[i + 3] = i + 1
            if kind in ("gen_disp_random", "set_displacements"):
                planned[i + 1] = planned[i + 3] = "disp_cells"
        _COVER[(prev, kind)] = _COVER.get((prev, kind), 0) + 1
        prev = kind
        op = {"op": kind}
        if kind == "set_fc":
            op.update(kind=rng.choice(["full", "full", "compact"]), scale=rng.choice([1.0, 1.3, 0.8, 1.7]),
                      layout=rng.choice(["owned", "owned", "owned", "view", "fortran", "list", "float32"]))
            st["fc"] = op["kind"]
        elif kind == "produce_fc":
            op.update(compact=rng.random() < 0.5)
            st["fc"] = "compact" if op["compact"] else "full"
        elif kind == "symmetrize":
            op.update(level=rng.choice([1, 1, 2, 3]), show_drift=rng.random() < 0.5)
        elif kind == "cutoff":
            op.update(radius=rng.choice([2.5, 3.5, 4.5, 6.0]))
        elif kind == "set_nac":
            op.update(method=rng.choice([None, "gonze", "wang", "default"]), zscale=rng.choice([1.0, 0.7, 1.4]), with_factor=rng.random() < 0.92,
                      non_neutral=rng.choice([0.0, 0.0, 0.03]))  # charges that do not sum to zero: phonopy corrects its own copy, not the caller's
        elif kind == "set_masses":
            op.update(factors=[rng.choice([1.0, 1.1, 2.0, 0.5]) for _ in range(n_prim)])
        elif kind == "gen_disp":
            op.update(distance=rng.choice([0.01, 0.03, 0.05]), is_plusminus=rng.choice(["auto", True, False]), is_diagonal=rng.random() < 0.6)
            st["ds"], st["forces"] = 1, False
        elif kind == "gen_disp_random":
            op.update(n=rng.randint(1, 4), seed=rng.randint(0, 10**6), distance=rng.choice([0.01, 0.03]))
            st["ds"], st["forces"] = 2, False
        elif kind == "set_forces":
            op.update(fscale=rng.choice([1.0, 1.3, 0.8]), energies=rng.random() < 0.4)
            st["forces"] = True
        elif kind == "set_displacements":
            op.update(n=rng.choice([None, None, 1, 3]), seed=rng.randint(0, 10**6), amp=rng.choice([0.01, 0.04]))
            if op["n"] is not None:
                st["forces"] = False
        elif kind == "gen_disp_temp":
            # finite-temperature random displacements are computed from the CURRENT force constants and masses
            op.update(n=rng.randint(1, 3), seed=rng.randint(0, 10**6), temperature=rng.choice([100.0, 300.0, 900.0]))
            st["ds"], st["forces"] = 2, False
            if i + 2 < n_ops and seq[i + 1] is None and seq[i + 2] is None and rng.random() < 0.6:
                seq[i + 1], seq[i + 2] = rng.choice(["set_fc", "set_masses", "cutoff"]), "gen_disp_temp"
        elif kind == "set_dataset":
            op.update(kind=rng.choice([1, 2, 2, None]), with_forces=rng.random() < 0.6, fscale=rng.choice([1.0, 1.3]), with_energies=rng.random() < 0.35)
            if planned.get(i) == "lesser":
                # replace a dataset by one that carries LESS (same type, no forces / no energies): left-overs of the old one
                # must not survive
                op.update(kind=prev_ds_kind or 2, with_forces=False)
            prev_ds_kind = op["kind"]
            if op["kind"] is not None and op["with_forces"] and i + 2 < n_ops and seq[i + 1] is None and rng.random() < 0.5:
                seq[i + 1], seq[i + 2] = "query", rng.choice(["set_dataset", "set_dataset", "gen_disp_random", "gen_disp"])
                planned[i + 2] = "lesser"
            st["ds"] = op["kind"]
            st["forces"] = bool(op["with_forces"]) and op["kind"] is not None
        elif kind == "copy":
            st["copy"] = True
            other = dict(fc=None, ds=None, forces=False, copy=True)
        elif kind == "switch":
            st, other = other, st
        elif kind == "invalid":
            op.update(which=rng.choice(["fc_wrong_shape", "symmetrize_without_fc", "displacements_on_type1", "dataset_bad_format", "dataset_wrong_shape"] + (["nac_wrong_count"] * 2 if world_has_nac else [])))
            if op["which"] == "nac_wrong_count" and i + 2 < n_ops and seq[i + 1] is None and seq[i + 2] is None:
                seq[i + 1], seq[i + 2] = "set_nac", "query"  # a refused assignment must not spoil the next valid one
        elif kind == "query":
            op.update(kind=rng.choice(QUERY_KINDS), seed=rng.getrandbits(32), eigvecs=rng.random() < 0.4, gv=rng.random() < 0.3,
                      mesh=[rng.randint(1, 3) for _ in range(3)], mesh_sym=rng.random() < 0.6, band_conn=rng.random() < 0.3,
                      direction=rng.choice([None, [1, 0, 0], [0.2, 0.5, -0.3]]))
            if planned.get(i) == "disp_cells":
                op["kind"] = "disp_cells"
            if isinstance(planned.get(i), dict):  # follow-up of a query with an approach direction: the same, without the direction
                op = dict(planned[i], direction=None)
            elif op["direction"] is not None and op["kind"] in ("qpoints", "band", "mesh", "gv_at_q") and i + 1 < n_ops and seq[i + 1] is None and rng.random() < 0.5:
                op["gv"] = True
                seq[i + 1] = "query"
                planned[i + 1] = dict(op)
            if i in repeat and repeat[i] < len(ops) and ops[repeat[i]]["op"] == "query":
                op = dict(ops[repeat[i]])
        elif kind == "scribble_out":
            op.update(getter=rng.choice(GETTERS))
        ops.append(op)
    # always end with a query so that the last state change is observed
    ops.append({"op": "query", "kind": rng.choice(["qpoints", "mesh", "dm_at_q", "freqs"]), "seed": rng.getrandbits(32), "eigvecs": False, "gv": rng.random() < 0.4,
                "mesh": [2, 2, 1], "mesh_sym": True, "band_conn": False, "direction": None})
    return ops


def gen_spec(seed, index, tier):
    rng = core.rng_of(seed, "c15")
    fault_mode = index % 2 == 1  # fault-free and fault-injecting families are separate
    w = World.generate(seed, max_atoms=rng.choice([12, 16, 24, 36]))
    n_prim = len([1 for _ in range(1)])  # filled at run time; factors list is extended cyclically
    variant = "sim" if rng.random() < 0.35 else "serial"
    sched = None
    if variant == "sim":
        from .check_c13 import gen_schedule

        sched = gen_schedule(rng)
    n_ops = rng.randint(2, 14)
    ops = _gen_ops(rng, n_ops, 8, bool(CRYSTALS[w.name].get("nac")), fault_mode, tier)
    if fault_mode and tier == "thorough" and rng.random() < 0.3:
        ops.insert(rng.randint(1, len(ops) - 1), {"op": "build_swap"})
    init = dict(is_symmetry=rng.random() < 0.85, store_dense_svecs=rng.random() < 0.7, log_level=rng.choice([0, 0, 1, 2]),
                factor=rng.choice([None, None, 521.47083, 108.97077]),  # constructor-level settings a copy must carry too
                frequency_scale_factor=rng.choice([None, None, None, 1.1]))  # (deprecated, still reachable: FREQUENCY_SCALE_FACTOR)
    return dict(seed=seed, world=w.spec, variant=variant, schedule=sched, init=init, ops=ops, fault_mode=fault_mode)


# ------------------------------------------------------------------ helpers
def snapshot(x):
    """Deep, comparison-friendly copy of data handed out by a getter."""
    if isinstance(x, np.ndarray):
        return x.copy()
    if isinstance(x, dict):
        return {k: snapshot(v) for k, v in x.items()}
    if isinstance(x, (list, tuple)):
        return [snapshot(v) for v in x]
    return copy.deepcopy(x)


def same(a, b):
    if isinstance(a, np.ndarray) or isinstance(b, np.ndarray):
        a, b = np.asarray(a), np.asarray(b)
        return a.shape == b.shape and bool(np.array_equal(a, b, equal_nan=True)) if a.dtype.kind in "fc" and b.dtype.kind in "fc" else (a.shape == b.shape and bool(np.array_equal(a, b)))
    if isinstance(a, dict) and isinstance(b, dict):
        return set(a) == set(b) and all(same(a[k], b[k]) for k in a)
    if isinstance(a, (list, tuple)) and isinstance(b, (list, tuple)):
        return len(a) == len(b) and all(same(x, y) for x, y in zip(a, b))
    return a == b


def scribble(x):
    """Overwrite handed-out data in place (what a careless caller may do). Returns number of arrays touched."""
    n = 0
    if isinstance(x, np.ndarray):
        if x.flags.writeable and x.size:
            if x.dtype.kind in "fc":
                x *= 1.5
                x += 0.25
            elif x.dtype.kind in "iu":
                x += 1
            n += 1
    elif isinstance(x, dict):
        for v in x.values():
            n += scribble(v)
    elif isinstance(x, list):
        for i, v in enumerate(x):
            if isinstance(v, (int, float)) and not isinstance(v, bool):
                x[i] = v * 1.5 + 0.25
                n += 1
            else:
                n += scribble(v)
    return n


def restore(x, saved):
    if isinstance(x, np.ndarray):
        if x.flags.writeable:
            x[...] = saved
    elif isinstance(x, dict):
        for k in list(x):
            if k in saved:
                if isinstance(x[k], (np.ndarray, dict, list)):
                    restore(x[k], saved[k])
                else:
                    x[k] = saved[k]
    elif isinstance(x, list):
        for i in range(min(len(x), len(saved))):
            if isinstance(x[i], (np.ndarray, dict, list)):
                restore(x[i], saved[i])
            else:
                x[i] = saved[i]


def _get(ph, getter):
    if getter == "get_mesh_dict.frequencies":
        ph.run_mesh([2, 2, 2])
        return ph.get_mesh_dict()["frequencies"], (lambda: ph.get_mesh_dict()["frequencies"])
    if getter == "get_qpoints_dict.frequencies":
        ph.run_qpoints([[0.1, 0.2, 0.3], [0.5, 0, 0]])
        return ph.get_qpoints_dict()["frequencies"], (lambda: ph.get_qpoints_dict()["frequencies"])
    if getter == "symmetry_operations":
        return ph.symmetry.symmetry_operations, (lambda: ph.symmetry.symmetry_operations)

    def f():
        o = ph
        for part in getter.split("."):
            o = getattr(o, part)
        return o

    return f(), f


def _factor_kw(init):
    kw = {} if init.get("factor") is None else {"factor": init["factor"]}
    if init.get("frequency_scale_factor") is not None:
        kw["frequency_scale_factor"] = init["frequency_scale_factor"]
    return kw


class Target:
    """One Phonopy object + the harness's model of its state."""

    def __init__(self, ph, init):
        self.ph = ph
        self.init = init
        self.fc = None
        self.nac = None
        self.masses = np.array(ph.masses, dtype=float)
        self.dataset = None
        self.handed_in = []  # (label, array, private copy)

    def fresh(self):
        from phonopy import Phonopy

        ph = self.ph
        f = Phonopy(ph.unitcell, supercell_matrix=ph.supercell_matrix, primitive_matrix=ph.primitive_matrix,
                    is_symmetry=self.init["is_symmetry"], store_dense_svecs=self.init["store_dense_svecs"], log_level=0, **_factor_kw(self.init))
        f.masses = self.masses.copy()
        if self.nac is not None:
            f.nac_params = copy.deepcopy(self.nac)
        if self.fc is not None:
            f.force_constants = self.fc.copy()
        if self.dataset is not None:
            f.dataset = copy.deepcopy(self.dataset)
        return f

    def blank(self):
        """A new object with the cell and masses only (no dataset, force constants or NAC): what the harness builds datasets with,
        so that the model of the long-lived object's dataset never passes through that object's own setters' history."""
        from phonopy import Phonopy

        ph = self.ph
        f = Phonopy(ph.unitcell, supercell_matrix=ph.supercell_matrix, primitive_matrix=ph.primitive_matrix,
                    is_symmetry=self.init["is_symmetry"], store_dense_svecs=self.init["store_dense_svecs"], log_level=0, **_factor_kw(self.init))
        f.masses = self.masses.copy()
        return f


def _eig(f):
    f = np.asarray(f)
    return np.sign(f) * f * f


def run_query(ph, q, has_fc, n_super):
    """Returns {name: array}; identical code for the long-lived and the fresh object."""
    rng = core.rng_of(q["seed"], "q")
    out = {}
    kind = q["kind"]
    if not has_fc and kind != "disp_cells":
        kind = "disp_cells"
    qs = qpoint_pool(rng, rng.randint(1, 4))
    if kind == "qpoints":
        ph.run_qpoints(qs, with_eigenvectors=q["eigvecs"], with_group_velocities=q["gv"], with_dynamical_matrices=not q["eigvecs"], nac_q_direction=q["direction"])
        d = ph.get_qpoints_dict()
        out["eig"] = _eig(d["frequencies"])
        if not q["eigvecs"]:
            out["D"] = d["dynamical_matrices"]
        else:
            out["vecs"] = d["eigenvectors"]
        if q["gv"]:
            out["gv"] = d["group_velocities"]
    elif kind == "mesh":
        ph.run_mesh(q["mesh"], is_mesh_symmetry=q["mesh_sym"], with_eigenvectors=q["eigvecs"], with_group_velocities=q["gv"])
        d = ph.get_mesh_dict()
        out["eig"] = _eig(d["frequencies"])
        out["w"] = d["weights"]
        if q["gv"]:
            out["gv"] = d["group_velocities"]
    elif kind == "band":
        a, b = qs[0], (qs[1] if len(qs) > 1 else [0.5, 0.5, 0.0])
        path = [np.linspace(a, b, 4).tolist()]
        ph.run_band_structure(path, with_eigenvectors=q["eigvecs"], with_group_velocities=q["gv"], is_band_connection=q["band_conn"])
        d = ph.get_band_structure_dict()
        out["eig"] = _eig(np.array(d["frequencies"]))
        if q["gv"]:
            out["gv"] = np.array(d["group_velocities"])
    elif kind == "gv_at_q":
        out["gv"] = ph.get_group_velocity_at_q(qs[0])
    elif kind == "dm_at_q":
        out["D"] = ph.get_dynamical_matrix_at_q(qs[0])
    elif kind == "freqs":
        out["eig"] = _eig(ph.get_frequencies(qs[0]))
        f, v = ph.get_frequencies_with_eigenvectors(qs[-1])
        out["eig2"] = _eig(f)
        out["vecs"] = v
    elif kind == "tp":
        ph.run_mesh([max(2, m) for m in q["mesh"]], is_mesh_symmetry=q["mesh_sym"])
        ph.run_thermal_properties(temperatures=[50.0, 300.0, 800.0], cutoff_frequency=0.05)
        d = ph.get_thermal_properties_dict()
        out.update(F=d["free_energy"], S=d["entropy"], Cv=d["heat_capacity"])
    elif kind == "dos":
        ph.run_mesh([max(2, m) for m in q["mesh"]], is_mesh_symmetry=q["mesh_sym"])
        ph.run_total_dos(freq_min=0.0, freq_max=12.0, freq_pitch=0.5, use_tetrahedron_method=rng.random() < 0.5)
        out["dos"] = ph.get_total_dos_dict()["total_dos"]
    elif kind == "disp_cells":
        cells = ph.supercells_with_displacements
        if cells is None:
            out["none"] = np.zeros(1)
        else:
            out["pos"] = np.array([c.positions for c in cells if c is not None]) if len(cells) else np.zeros(1)
            out["cell_masses"] = np.array([c.masses for c in cells if c is not None]) if len(cells) else np.zeros(1)
    return kind, out


def cmp_outputs(a, b, rtol=1e-10):
    bad = []
    for k in b:
        x, y = np.asarray(a.get(k)), np.asarray(b[k])
        if x.shape != y.shape:
            bad.append((k, float("inf")))
            continue
        if x.tobytes() == y.tobytes():
            continue
        fx, fy = np.isfinite(x), np.isfinite(y)
        if not np.array_equal(fx, fy):
            bad.append((k, float("inf")))
            continue
        if not fx.any():
            continue
        d = float(np.max(np.abs(x[fx] - y[fy])))
        s = float(np.max(np.abs(y[fy]))) or 1.0
        if d > rtol * s + 1e-13:
            bad.append((k, d / s))
    return bad


# ------------------------------------------------------------------ execution
def execute(spec):
    E = _E
    w = World(spec["world"])
    variant = spec["variant"]
    E.use(variant)
    if variant == "sim":
        E.sim.configure(spec["schedule"] or dict(team=1, policy="order"))
    init = spec["init"]
    violations = []
    faults = {}
    probes = {}
    log = []
    import contextlib
    import io

    sink = io.StringIO()
    with contextlib.redirect_stdout(sink):
        ph0 = w.phonopy(is_symmetry=init["is_symmetry"], store_dense_svecs=init["store_dense_svecs"], log_level=init["log_level"], **_factor_kw(init))
        fc_model_full = w.force_constants(ph0.supercell)
        nac_model = None
        if CRYSTALS[w.name].get("nac"):
            w2 = World(dict(spec["world"], nac="gonze"))
            nac_model = w2.nac_params(ph0.primitive)
        targets = [Target(ph0, init)]
        cur = 0
        n_state_ops = 0
        kinds_seq = []

        def V(cls, site, **detail):
            violations.append({"class": cls, "site": site, "detail": dict(detail, step=len(kinds_seq), history=list(kinds_seq))})

        def check_handed_in(t, opname):
            for ent in getattr(t, "handed_in_objs", []):
                label, obj, snap_ = ent
                if not same(snapshot(obj), snap_):
                    V("handed-in-modified", "%s->%s" % (label, opname))
                    ent[2] = snapshot(obj)
            for ent in t.handed_in:
                label, arr, priv = ent
                if not np.array_equal(arr, priv):
                    V("handed-in-modified", "%s->%s" % (label, opname), maxdiff=float(np.max(np.abs(np.asarray(arr, dtype=float) - priv))))
                    ent[2] = np.array(arr, copy=True)

        def checkpoint(t, q, why="query"):
            has_fc = t.fc is not None
            try:
                kind, got = run_query(t.ph, q, has_fc, len(t.ph.supercell))
                err_a = None
            except Exception as e:  # noqa: BLE001
                kind, got, err_a = q["kind"], None, "%s: %s" % (type(e).__name__, str(e)[:120])
            fr = t.fresh()
            try:
                _, want = run_query(fr, q, has_fc, len(t.ph.supercell))
                err_b = None
            except Exception as e:  # noqa: BLE001
                want, err_b = None, "%s: %s" % (type(e).__name__, str(e)[:120])
            if err_a or err_b:
                if bool(err_a) != bool(err_b):
                    return kind, [("raise", "long-lived: %s / fresh: %s" % (err_a, err_b))]
                probes["query_raised_on_both"] = probes.get("query_raised_on_both", 0) + 1
                return kind, []
            bad = cmp_outputs(got, want)
            log.append(("q", kind, core.digest(got)))
            # results handed out by EARLIER queries must still hold what they held (a later query of the same size must not
            # refill an array the caller already has); then remember this query's arrays
            for ent in getattr(t, "handed_out", []):
                lab_, arr_, snap_ = ent
                if arr_.shape != snap_.shape or not np.array_equal(arr_, snap_, equal_nan=True):
                    bad = bad + [("earlier-result(%s)-overwritten" % lab_, float(np.max(np.abs(arr_ - snap_))) if arr_.shape == snap_.shape else -1.0)]
                    ent[2] = arr_.copy()
            keep = []
            for name_, val_ in (got or {}).items():
                if isinstance(val_, np.ndarray) and val_.size and val_.dtype.kind in "fc":
                    keep.append(["%s:%s" % (kind, name_), val_, val_.copy()])
            t.handed_out = (getattr(t, "handed_out", []) + keep)[-12:]
            return kind, bad

        for op in spec["ops"]:
            t = targets[cur]
            ph = t.ph
            kind = op["op"]
            label = kind
            raised = None
            try:
                if kind == "set_fc":
                    base = fc_model_full * op["scale"]
                    if op["kind"] == "compact":
                        base = base[ph.primitive.p2s_map]
                    if op["layout"] == "owned":
                        arr = np.array(base, dtype="double", order="C")
                    elif op["layout"] == "view":
                        big = np.zeros((base.shape[0] + 1,) + base.shape[1:])
                        big[1:] = base
                        arr = big[1:]
                    elif op["layout"] == "fortran":
                        arr = np.asfortranarray(base)
                    elif op["layout"] == "float32":
                        arr = np.array(base, dtype="float32")
                    else:
                        arr = base.tolist()
                    label = "force_constants=(%s,%s)" % (op["kind"], op["layout"])
                    ph.force_constants = arr
                    t.fc = np.array(arr, dtype="double", order="C")
                    if isinstance(arr, np.ndarray):
                        t.handed_in = [e for e in t.handed_in if not e[0].startswith("force_constants=")]
                        t.handed_in.append([label, arr, np.array(arr, copy=True)])
                    rep = ph.force_constants
                    if not (np.asarray(rep).shape == t.fc.shape and np.array_equal(np.asarray(rep, dtype=float), t.fc)):
                        V("set-get-mismatch", "force_constants")
                elif kind == "produce_fc":
                    ph.produce_force_constants(calculate_full_force_constants=not op["compact"])
                    t.fc = np.array(ph.force_constants, copy=True)
                    want_shape0 = len(ph.primitive) if op["compact"] else len(ph.supercell)
                    if t.fc.shape[0] != want_shape0:
                        V("set-get-mismatch", "produce_force_constants.shape")
                elif kind == "symmetrize":
                    ph.symmetrize_force_constants(level=op["level"], show_drift=op.get("show_drift", True))
                    t.fc = np.array(ph.force_constants, copy=True)
                elif kind == "symmetrize_sg":
                    ph.symmetrize_force_constants_by_space_group()
                    t.fc = np.array(ph.force_constants, copy=True)
                elif kind == "cutoff":
                    ph.set_force_constants_zero_with_radius(op["radius"])
                    t.fc = np.array(ph.force_constants, copy=True)
                elif kind == "set_nac":
                    if op["method"] is None or nac_model is None:
                        val = None
                    else:
                        val = {"born": np.array(nac_model["born"] * op["zscale"] + op.get("non_neutral", 0.0) * np.eye(3)[None, :, :], dtype="double", order="C"),
                               "dielectric": nac_model["dielectric"].copy()}
                        if op["with_factor"]:
                            val["factor"] = nac_model["factor"]
                        if op["method"] != "default":
                            val["method"] = op["method"]
                    priv = copy.deepcopy(val)
                    ph.nac_params = val
                    t.nac = priv
                    if val is not None:
                        t.handed_in = [e for e in t.handed_in if not e[0].startswith("nac_params=")]
                        t.handed_in.append(["nac_params=.born", val["born"], val["born"].copy()])
                        t.handed_in.append(["nac_params=.dielectric", val["dielectric"], val["dielectric"].copy()])
                    rep = ph.nac_params
                    if (rep is None) != (priv is None) or (rep is not None and not (np.array_equal(rep["born"], priv["born"]) and np.array_equal(rep["dielectric"], priv["dielectric"]) and rep.get("method") == priv.get("method"))):
                        V("set-get-mismatch", "nac_params")
                elif kind == "set_masses":
                    fac = np.array([op["factors"][i % len(op["factors"])] for i in range(len(ph.primitive))])
                    # symmetry-equivalent atoms keep equal masses: factor by species
                    sym = list(ph.primitive.symbols)
                    fac = np.array([fac[sym.index(s)] for s in sym])
                    m = np.array(w_masses(ph)) * fac
                    arr = m.copy()
                    ph.masses = arr
                    t.masses = m.copy()
                    t.handed_in.append(["masses=", arr, arr.copy()])
                    if not np.allclose(ph.masses, m, rtol=0, atol=0):
                        V("set-get-mismatch", "masses")
                    s_m = ph.supercell.masses
                    p2p = ph.primitive.p2p_map
                    exp_s = m[[p2p[x] for x in ph.primitive.s2p_map]]
                    if not np.array_equal(s_m, exp_s) or not np.array_equal(ph.unitcell.masses, exp_s[ph.supercell.u2s_map]):
                        V("set-get-mismatch", "masses.propagation")
                elif kind in ("gen_disp", "gen_disp_random"):
                    # the model is what a blank object generates with the same arguments: whatever the long-lived object held
                    # before (forces, energies, another dataset type) must not survive into the new dataset
                    if kind == "gen_disp":
                        gkw = dict(distance=op["distance"], is_plusminus=op["is_plusminus"], is_diagonal=op["is_diagonal"])
                    else:
                        gkw = dict(distance=op["distance"], number_of_snapshots=op["n"], random_seed=op["seed"])
                    bl = t.blank()
                    bl.generate_displacements(**gkw)
                    expect = snapshot(bl.dataset)
                    t.dataset = None  # if the call below raises, the handler re-syncs from the object
                    ph.generate_displacements(**gkw)
                    t.dataset = expect
                    if not same(snapshot(ph.dataset), expect):
                        V("set-get-mismatch", "generate_displacements.dataset", reported_keys=sorted(ph.dataset) if isinstance(ph.dataset, dict) else None,
                          expected_keys=sorted(expect))
                        t.dataset = snapshot(ph.dataset)  # reported once; the rest of the history continues from the reported state
                elif kind == "set_forces":
                    fs = model_forces(w, ph, fc_model_full * op["fscale"])
                    arrs = [np.array(f) for f in fs]
                    # model built by hand from the previous model (not read back from the object)
                    expect = copy.deepcopy(t.dataset) if t.dataset is not None else None
                    ens = [-(i + 1.5) for i in range(len(arrs))]
                    if expect is not None and "first_atoms" in expect:
                        for i, d_ in enumerate(expect["first_atoms"]):
                            d_["forces"] = np.array(arrs[i], dtype="double", order="C")
                            if op["energies"]:
                                d_["supercell_energy"] = float(ens[i])
                    elif expect is not None:
                        expect["forces"] = np.array(arrs, dtype="double", order="C")
                        if op["energies"]:
                            expect["supercell_energies"] = np.array(ens, dtype="double")
                    ph.forces = arrs if "first_atoms" in ph.dataset else np.array(arrs)
                    for i, a_ in enumerate(arrs[:2]):
                        t.handed_in.append(["forces=[%d]" % i, a_, a_.copy()])
                    if op["energies"]:
                        ph.supercell_energies = ens
                    rep = np.array(ph.forces)
                    if not np.array_equal(rep, np.array(fs)):
                        V("set-get-mismatch", "forces")
                    if expect is not None and not same(snapshot(ph.dataset), expect):
                        V("set-get-mismatch", "forces=.dataset", reported_keys=sorted(ph.dataset), expected_keys=sorted(expect))
                        expect = snapshot(ph.dataset)
                    t.dataset = expect if expect is not None else snapshot(ph.dataset)
                elif kind == "gen_disp_temp":
                    gkw = dict(number_of_snapshots=op["n"], temperature=op["temperature"], random_seed=op["seed"])
                    bl = t.blank()
                    bl.force_constants = t.fc.copy()
                    bl.generate_displacements(**gkw)
                    expect = snapshot(bl.dataset)
                    t.dataset = None
                    ph.generate_displacements(**gkw)
                    t.dataset = expect
                    got_ds = snapshot(ph.dataset)
                    ok_ = isinstance(got_ds, dict) and sorted(got_ds) == sorted(expect) and all(
                        (np.allclose(got_ds[k_], expect[k_], rtol=1e-9, atol=1e-12) if isinstance(expect[k_], np.ndarray) else got_ds[k_] == expect[k_]) for k_ in expect)
                    if not ok_:
                        V("stale-result", "generate_displacements(temperature).dataset", reported_keys=sorted(got_ds) if isinstance(got_ds, dict) else None, expected_keys=sorted(expect),
                          maxdiff=(float(np.max(np.abs(got_ds["displacements"] - expect["displacements"]))) if isinstance(got_ds, dict) and "displacements" in got_ds
                                   and np.shape(got_ds["displacements"]) == np.shape(expect["displacements"]) else None))
                        t.dataset = got_ds
                elif kind == "set_displacements":
                    # the `displacements` setter on a type-2 dataset: same number of supercells (forces stay) or another number
                    cur_n = len(t.dataset["displacements"]) if t.dataset is not None and "displacements" in t.dataset else None
                    if cur_n is None:
                        raise RuntimeError("n/a: no type-2 dataset")
                    n_new = cur_n if op["n"] is None else op["n"]
                    r_ = np.random.default_rng(op["seed"])
                    arr = (r_.random((n_new, len(ph.supercell), 3)) - 0.5) * 2 * op["amp"]
                    expect = copy.deepcopy(t.dataset)
                    expect["displacements"] = arr.copy()
                    ph.displacements = arr
                    t.handed_in.append(["displacements=", arr, arr.copy()])
                    if not same(snapshot(ph.dataset), expect):
                        V("set-get-mismatch", "displacements=.dataset", reported_keys=sorted(ph.dataset), expected_keys=sorted(expect))
                        expect = snapshot(ph.dataset)
                    t.dataset = expect
                elif kind == "set_dataset":
                    if op["kind"] is None:
                        val = None
                    else:
                        tmp = t.blank()
                        if op["kind"] == 1:
                            tmp.generate_displacements(distance=0.02)
                        else:
                            tmp.generate_displacements(distance=0.02, number_of_snapshots=2, random_seed=7)
                        if op["with_forces"]:
                            fs = model_forces(w, tmp, fc_model_full * op["fscale"])
                            tmp.forces = fs if op["kind"] == 1 else np.array(fs)
                            if op.get("with_energies"):
                                tmp.supercell_energies = [-(i + 2.25) for i in range(len(fs))]
                        val = copy.deepcopy(tmp.dataset)
                    priv = copy.deepcopy(val)
                    ph.dataset = val
                    t.dataset = priv
                    if val is not None:
                        # the caller's dictionary (and the dictionaries inside it) must stay as the caller left them
                        if not hasattr(t, "handed_in_objs"):
                            t.handed_in_objs = []
                        t.handed_in_objs[:] = [e for e in t.handed_in_objs if e[0] != "dataset=(dict)"]
                        t.handed_in_objs.append(["dataset=(dict)", val, snapshot(val)])
                    if val is not None and "displacements" in val:
                        t.handed_in.append(["dataset=.displacements", val["displacements"], val["displacements"].copy()])
                    if val is not None and "first_atoms" in val and "forces" in val["first_atoms"][0]:
                        t.handed_in.append(["dataset=.first_atoms[0].forces", val["first_atoms"][0]["forces"], val["first_atoms"][0]["forces"].copy()])
                    if not same(snapshot(ph.dataset), priv):
                        V("set-get-mismatch", "dataset")
                elif kind == "copy":
                    cp = ph.copy()
                    t2 = Target(cp, init)
                    if not np.array_equal(t2.masses, t.masses):
                        V("copy-not-independent", "copy.masses-not-carried")
                    if len(targets) == 1:
                        targets.append(t2)
                    else:
                        targets[1 - cur] = t2
                elif kind == "switch":
                    if len(targets) > 1:
                        cur = 1 - cur
                elif kind == "invalid":
                    before = (snapshot(ph.force_constants), snapshot(ph.dataset), snapshot(ph.nac_params))
                    ok_raise = False
                    try:
                        if op["which"] == "fc_wrong_shape":
                            ph.force_constants = np.zeros((len(ph.primitive) + 1, len(ph.supercell), 3, 3))
                        elif op["which"] == "symmetrize_without_fc":
                            if ph.force_constants is None:
                                ph.symmetrize_force_constants()
                            else:
                                raise RuntimeError("n/a")
                        elif op["which"] == "displacements_on_type1":
                            if ph.dataset is not None and "first_atoms" in ph.dataset:
                                ph.displacements = np.zeros((1, len(ph.supercell), 3))
                            else:
                                raise RuntimeError("n/a")
                        elif op["which"] == "dataset_bad_format":
                            ph.dataset = {"foo": 1}
                        elif op["which"] == "dataset_wrong_shape":
                            ph.dataset = {"displacements": np.zeros((2, len(ph.supercell) + 1, 3))}
                        elif op["which"] == "nac_wrong_count":
                            if nac_model is None or ph.force_constants is None:
                                raise RuntimeError("n/a")
                            ph.nac_params = {"born": nac_model["born"][:-1].copy(), "dielectric": nac_model["dielectric"].copy(), "factor": nac_model["factor"]}
                    except Exception:  # noqa: BLE001
                        ok_raise = True
                    faults["operation_that_must_raise"] = faults.get("operation_that_must_raise", 0) + 1
                    if not ok_raise:
                        probes["invalid_operation_accepted:" + op["which"]] = probes.get("invalid_operation_accepted:" + op["which"], 0) + 1
                    after = (snapshot(ph.force_constants), snapshot(ph.dataset), snapshot(ph.nac_params))
                    if ok_raise and not same(before, after):
                        V("failed-operation-changed-state", op["which"])
                    if not ok_raise:
                        # accepted: re-sync the model with what the object reports (not a violation of C15 by itself)
                        t.fc = None if ph.force_constants is None else np.array(ph.force_constants, copy=True)
                        t.dataset = snapshot(ph.dataset)
                        t.nac = copy.deepcopy(ph.nac_params)
                elif kind == "build_swap":
                    nv = "serial" if E.current == "sim" else "sim"
                    E.use(nv)
                    if nv == "sim":
                        E.sim.configure(spec["schedule"] or dict(team=3, policy="rand", p1=1, p2=64, seed=spec["seed"]))
                    faults["build_swap"] = faults.get("build_swap", 0) + 1
                elif kind == "query":
                    qk, bad = checkpoint(t, op)
                    label = "query:" + qk
                    for name, rel in bad:
                        V("stale-result", "%s:%s" % (qk, name), rel=rel, target=cur)
                    # the other object (copy / original) must not have been affected either
                    if len(targets) > 1 and n_state_ops:
                        o = targets[1 - cur]
                        qk2, bad2 = checkpoint(o, dict(op, kind="dm_at_q" if o.fc is not None else "disp_cells"))
                        for name, rel in bad2:
                            V("copy-not-independent", "%s:%s" % (qk2, name), rel=rel)
                elif kind == "scribble_out":
                    g = op["getter"]
                    label = "scribble:" + g
                    try:
                        obj, again = _get(ph, g)
                    except Exception:  # noqa: BLE001
                        obj = None
                    if obj is not None:
                        before = snapshot(obj)
                        n = scribble(obj)
                        t.handed_out = []  # the caller scribbles on purpose: earlier results are no longer tracked
                        if n:
                            faults["scribble_on_handed_out:" + g] = faults.get("scribble_on_handed_out:" + g, 0) + 1
                            after = snapshot(again())
                            if not same(after, before):
                                V("handed-out-aliased", g)
                                restore(obj, before)
                                if not same(snapshot(again()), before):
                                    probes["restore_failed"] = probes.get("restore_failed", 0) + 1
                            # results must still come from the un-scribbled state
                            if t.fc is not None and g not in ("get_mesh_dict.frequencies", "get_qpoints_dict.frequencies"):
                                qk, bad = checkpoint(t, {"kind": "dm_at_q", "seed": 5, "eigvecs": False, "gv": False, "mesh": [2, 2, 2], "mesh_sym": True, "band_conn": False, "direction": None})
                                for name, rel in bad:
                                    V("handed-out-aliased", g + ":results", rel=rel)
                                    # re-sync through the setters so that the rest of the history is not polluted
                                    t.ph.force_constants = t.fc.copy()
                                    break
                        else:
                            probes["getter_returned_nothing_writable:" + g] = probes.get("getter_returned_nothing_writable:" + g, 0) + 1
            except Exception as e:  # noqa: BLE001
                raised = "%s: %s" % (type(e).__name__, str(e)[:200])
                import traceback

                log.append(("exc", kind, raised))
                probes["operation_raised:" + kind] = probes.get("operation_raised:" + kind, 0) + 1
                if spec.get("debug"):
                    traceback.print_exc()
                # a raising operation is allowed; afterwards the object must answer from its reported state
                t.fc = None if ph.force_constants is None else np.array(ph.force_constants, copy=True)
                t.nac = copy.deepcopy(ph.nac_params)
                t.dataset = snapshot(ph.dataset)
                t.masses = np.array(ph.masses, dtype=float)
            kinds_seq.append(label if kind != "query" else label)
            if kind in STATE_OPS and kind not in ("switch", "copy"):
                n_state_ops += 1
                check_handed_in(t, kind if kind != "set_fc" else "force_constants=")
            log.append((kind, raised))

    sigkinds = [o["op"] + (":" + o.get("kind", "") if o["op"] == "query" else "") + (":" + o.get("getter", "") if o["op"] == "scribble_out" else "") for o in spec["ops"]]
    n_state = sum(1 for o in spec["ops"] if o["op"] in STATE_OPS and o["op"] not in ("switch",))
    nontrivial = (n_state >= 2) or bool(faults)
    bigrams = ["%s>%s" % (a, b) for a, b in zip(["start"] + [o["op"] for o in spec["ops"]], [o["op"] for o in spec["ops"]])]
    trigrams = ["%s>%s>%s" % (a, b, c) for a, b, c in zip([o["op"] for o in spec["ops"]], [o["op"] for o in spec["ops"]][1:], [o["op"] for o in spec["ops"]][2:])]
    steps = {"api_operations": len(spec["ops"]), "state_changing_operations": n_state, "queries_checked_against_fresh_object": sum(1 for o in spec["ops"] if o["op"] == "query")}
    if variant == "sim":
        ss = E.sims["sim"].stats()
        steps["instrumented_access_events"] = ss["events"]
        steps["context_switches"] = ss["switches"]
        faults["thread_schedule_knob"] = 1
    probes["dm_class:" + ("none" if targets[0].ph.dynamical_matrix is None else type(targets[0].ph.dynamical_matrix).__name__)] = 1
    return {
        "digest": core.digest(log),
        "violations": violations,
        "sig": core.digest([sigkinds, variant, spec["fault_mode"]]),
        "nontrivial": nontrivial,
        "faults": faults,
        "probes": probes,
        "steps": steps,
        "bigrams": bigrams,
        "trigrams": trigrams,
        "sample": {"seed": spec["seed"], "crystal": w.name, "variant": variant, "init": init, "ops": spec["ops"][:6], "n_ops": len(spec["ops"])},
    }


def w_masses(ph):
    """Default masses of the primitive cell's species (the table values, independent of earlier set_masses)."""
    from phonopy.structure.atoms import atom_data, symbol_map

    return [atom_data[symbol_map[s]][3] for s in ph.primitive.symbols]


def model_forces(w, ph, fc_full):
    ds = ph.dataset
    n = fc_full.shape[0]
    out = []
    if "first_atoms" in ds:
        for d in ds["first_atoms"]:
            u = np.zeros((n, 3))
            u[d["number"]] = d["displacement"]
            out.append(w.forces_for(fc_full, u))
    else:
        for u in ds["displacements"]:
            out.append(w.forces_for(fc_full, np.array(u)))
    return out


def extra_coverage(outcomes):
    big, tri = set(), set()
    for o in outcomes:
        if o.kind == "ok":
            big.update(o.value.get("bigrams", []))
            tri.update(o.value.get("trigrams", []))
    kinds = STATE_OPS + ["query", "scribble_out"]
    return {"interleavings": {"distinct_operation_bigrams": len(big), "distinct_operation_trigrams": len(tri),
                              "operation_kinds": len(kinds), "bigram_space_upper_bound": (len(kinds) + 1) * len(kinds)}}


# ------------------------------------------------------------------ minimisation: drop operations (ddmin-style), then simplify
def shrink_candidates(spec):
    ops = spec["ops"]
    n = len(ops)
    chunk = max(1, n // 2)
    while chunk >= 1:
        for start in range(0, n, chunk):
            cand = ops[:start] + ops[start + chunk:]
            if cand:
                yield dict(spec, ops=cand)
        if chunk == 1:
            break
        chunk //= 2
    if spec["variant"] != "serial":
        yield dict(spec, variant="serial", schedule=None)
    if spec["init"].get("log_level"):
        yield dict(spec, init=dict(spec["init"], log_level=0))

"""Self-tests that guard the machinery (not property checks).

  python -m simverif.selftest determinism [--runs N] [--checks C13,C14,...]
      every check's batch digest must be identical across repeated execution, worker counts (16 / 3) and
      PYTHONHASHSEED values (0 / 777, fresh interpreters)
  python -m simverif.selftest fidelity
      the simulated OpenMP build vs a real libgomp build (real threads, OMP_NUM_THREADS 1/4/16) on a fixed world
"""
from __future__ import annotations

import os
import re
import subprocess
import sys

VERIF = os.path.dirname(os.path.dirname(os.path.abspath(__file__)))


def _run(check, runs, workers, hashseed, seed):
    env = dict(os.environ, VERIF_SEED=str(seed), VERIF_HASHSEED=str(hashseed), VERIF_NO_EVIDENCE="1")
    env.pop("SIMVERIF_PINNED", None)
    r = subprocess.run([sys.executable, "-m", "simverif.check", check, "--tier", "quick", "--runs", str(runs), "--workers", str(workers)], cwd=VERIF, env=env, capture_output=True, text=True)
    m = re.search(r"batch_digest=([0-9a-f]+)", r.stdout)
    return (m.group(1) if m else None), r.returncode


def determinism(argv):
    runs = 120
    checks = ["C13", "C14", "C15", "C16", "C17", "C18"]
    for i, a in enumerate(argv):
        if a == "--runs":
            runs = int(argv[i + 1])
        if a == "--checks":
            checks = argv[i + 1].split(",")
    ok = True
    for c in checks:
        n = runs if c != "C18" else max(24, runs // 4)
        res = [_run(c, n, 16, 0, 11), _run(c, n, 16, 0, 11), _run(c, n, 3, 0, 11), _run(c, n, 16, 777, 11)]
        same = len(set(d for d, _ in res)) == 1 and res[0][0] is not None
        print("%s runs=%d digests=%s exit=%s %s" % (c, n, [d for d, _ in res], [e for _, e in res], "DETERMINISTIC" if same else "DIVERGES"))
        ok = ok and same
    return 0 if ok else 1


def fidelity(argv):
    sys.path.insert(0, VERIF)
    from simverif.ext import Ext
    from simverif.world import World
    import numpy as np

    E = Ext(("sim", "serial", "omp"))
    from phonopy.harmonic.dynamical_matrix import run_dynamical_matrix_solver_c

    def work(ph):
        out = {}
        q = np.random.default_rng(0).random((9, 3))
        out["dm"] = run_dynamical_matrix_solver_c(ph.dynamical_matrix, q)
        ph.run_mesh([3, 3, 3], with_eigenvectors=True, is_mesh_symmetry=False)
        f = ph.get_mesh_dict()["frequencies"]
        out["eig"] = np.sign(f) * f * f
        ph.run_thermal_properties(temperatures=[50, 300, 900], cutoff_frequency=0.05)
        out["Cv"] = ph.get_thermal_properties_dict()["heat_capacity"]
        ph.run_projected_dos(freq_min=0, freq_max=10, freq_pitch=0.5)
        out["pdos"] = ph.get_projected_dos_dict()["projected_dos"]
        return out

    ok = True
    for name, nac in (("nacl", "gonze"), ("wurtzite", "wang"), ("si", None)):
        w = World.generate(7, force_crystal=name, max_atoms=40, force_nac=nac)
        E.use("sim")
        E.sim.configure(dict(seed=5, team=5, policy="rand", p1=1, p2=97))
        a = work(w.build())
        import ctypes

        gomp = ctypes.CDLL("libgomp.so.1")
        for nt in ("1", "4", "16"):
            gomp.omp_set_num_threads(int(nt))  # the environment variable is read only once, when libgomp is loaded
            E.use("omp")
            assert E.mods["omp"].omp_max_threads() == int(nt)
            b = work(w.build())
            for k in a:
                d = float(np.max(np.abs(a[k] - b[k])))
                s = float(np.max(np.abs(a[k]))) or 1.0
                good = d <= 1e-8 * s + 1e-9
                ok = ok and good
                print("%-9s nac=%-6s OMP_NUM_THREADS=%-2s %-5s maxdiff=%.2e scale=%.2e %s" % (name, nac, nt, k, d, s, "ok" if good else "DIFFERS"))
    return 0 if ok else 1


if __name__ == "__main__":
    cmd = sys.argv[1] if len(sys.argv) > 1 else "determinism"
    sys.exit({"determinism": determinism, "fidelity": fidelity}[cmd](sys.argv[2:]))

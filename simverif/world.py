"""Seeded worlds: what the simulated system computes on.

A world = crystal + supercell/primitive matrices + an exactly harmonic spring
model (force constants that are symmetric, translationally invariant and
space-group invariant by construction) + optional NAC parameters.  World
generation is input generation and nothing more; it exists so that schedules,
histories and faults have something real to act on (DESIGN.md 2.4).
"""

from __future__ import annotations

import copy
import itertools
import re

import numpy as np

from .core import rng_of

# name -> dict(lattice(3x3 rows), symbols, scaled positions, choices=[(supercell_matrix, primitive_matrix)], nac=bool, magmoms)
_A = 5.6903


def _fcc_positions(basis):
    tr = [(0, 0, 0), (0, 0.5, 0.5), (0.5, 0, 0.5), (0.5, 0.5, 0)]
    out = []
    for b in basis:
        for t in tr:
            out.append([(b[0] + t[0]) % 1.0, (b[1] + t[1]) % 1.0, (b[2] + t[2]) % 1.0])
    return out


def _hex(a, c):
    return [[a, 0, 0], [-a / 2, a * np.sqrt(3) / 2, 0], [0, 0, c]]


CRYSTALS = {
    "nacl": dict(
        lattice=np.eye(3) * 5.69,
        symbols=["Na"] * 4 + ["Cl"] * 4,
        positions=_fcc_positions([(0, 0, 0)]) + _fcc_positions([(0.5, 0.5, 0.5)]),
        choices=[(np.diag([1, 1, 1]), "F"), (np.diag([2, 2, 2]), "F"), (np.diag([1, 1, 1]), "auto"), (np.diag([2, 1, 1]), "F"),
                 (np.diag([1, 1, 1]), "P")],
        nac=True, eps="cubic",
    ),
    "nacl_prim": dict(
        lattice=np.array([[0, 0.5, 0.5], [0.5, 0, 0.5], [0.5, 0.5, 0]]) * 5.69,
        symbols=["Na", "Cl"],
        positions=[[0, 0, 0], [0.5, 0.5, 0.5]],
        choices=[(np.array([[-1, 1, 1], [1, -1, 1], [1, 1, -1]]), "P"), (np.diag([2, 2, 2]), "P"), (np.diag([3, 3, 3]), "P"),
                 (np.array([[-1, 1, 1], [1, -1, 1], [1, 1, -1]]) * 2, "auto")],
        nac=True, eps="cubic",
    ),
    "si": dict(
        lattice=np.eye(3) * 5.43,
        symbols=["Si"] * 8,
        positions=_fcc_positions([(0, 0, 0), (0.25, 0.25, 0.25)]),
        choices=[(np.diag([1, 1, 1]), "F"), (np.diag([2, 2, 2]), "F"), (np.diag([1, 1, 2]), "auto")],
        nac=False,
    ),
    "cscl": dict(
        lattice=np.eye(3) * 4.12,
        symbols=["Cs", "Cl"],
        positions=[[0, 0, 0], [0.5, 0.5, 0.5]],
        choices=[(np.diag([2, 2, 2]), "P"), (np.diag([3, 3, 3]), "P"), (np.diag([2, 2, 3]), "auto"), (np.array([[1, 1, 0], [-1, 1, 0], [0, 0, 2]]), "P")],
        nac=True, eps="cubic",
    ),
    "wurtzite": dict(
        lattice=_hex(3.25, 5.21),
        symbols=["Zn", "Zn", "O", "O"],
        positions=[[1 / 3, 2 / 3, 0.0], [2 / 3, 1 / 3, 0.5], [1 / 3, 2 / 3, 0.382], [2 / 3, 1 / 3, 0.882]],
        choices=[(np.diag([2, 2, 1]), "P"), (np.diag([2, 2, 2]), "P"), (np.diag([3, 3, 1]), "auto")],
        nac=True, eps="uniaxial",
    ),
    "rutile": dict(
        lattice=np.diag([4.59, 4.59, 2.96]),
        symbols=["Ti", "Ti", "O", "O", "O", "O"],
        positions=[[0, 0, 0], [0.5, 0.5, 0.5], [0.305, 0.305, 0], [0.695, 0.695, 0], [0.195, 0.805, 0.5], [0.805, 0.195, 0.5]],
        choices=[(np.diag([1, 1, 2]), "P"), (np.diag([2, 2, 2]), "P"), (np.diag([2, 2, 1]), "auto")],
        nac=True, eps="uniaxial",
    ),
    "rutile_mixed": dict(  # species interleaved in the input order
        lattice=np.diag([4.59, 4.59, 2.96]),
        symbols=["O", "Ti", "O", "O", "Ti", "O"],
        positions=[[0.305, 0.305, 0], [0, 0, 0], [0.695, 0.695, 0], [0.195, 0.805, 0.5], [0.5, 0.5, 0.5], [0.805, 0.195, 0.5]],
        choices=[(np.diag([1, 1, 2]), "P"), (np.diag([2, 2, 2]), "auto")],
        nac=True, eps="uniaxial",
    ),
    "hcp": dict(
        lattice=_hex(2.95, 4.68),
        symbols=["Ti", "Ti"],
        positions=[[1 / 3, 2 / 3, 0.25], [2 / 3, 1 / 3, 0.75]],
        choices=[(np.diag([2, 2, 2]), "P"), (np.diag([3, 3, 2]), "P"), (np.diag([2, 2, 1]), "auto")],
        nac=False,
    ),
    "bcc_afm": dict(
        lattice=np.eye(3) * 2.88,
        symbols=["Cr", "Cr"],
        positions=[[0, 0, 0], [0.5, 0.5, 0.5]],
        magmoms=[1.0, -1.0],
        choices=[(np.diag([2, 2, 2]), "P"), (np.diag([3, 3, 3]), "P")],
        nac=False,
    ),
    "hcp_6dec": dict(  # the same structure as a user's file carries it: coordinates to six decimals (ties between periodic images hold to ~1e-6 A only)
        lattice=_hex(2.95, 4.68),
        symbols=["Ti", "Ti"],
        positions=[[0.333333, 0.666667, 0.25], [0.666667, 0.333333, 0.75]],
        choices=[(np.diag([2, 2, 2]), "P"), (np.diag([3, 3, 2]), "P"), (np.diag([2, 2, 1]), "P")],
        nac=False, inexact=True,  # the spring model on these positions is invariant under the idealised space group to ~1e-6 only
    ),
    "bcc_noncollinear": dict(  # non-collinear moments (one 3-vector per atom)
        lattice=np.eye(3) * 2.88,
        symbols=["Cr", "Cr"],
        positions=[[0, 0, 0], [0.5, 0.5, 0.5]],
        magmoms=[[0.0, 0.6, 0.8], [0.0, -0.6, -0.8]],
        choices=[(np.diag([2, 2, 2]), "P"), (np.diag([2, 2, 1]), "P")],
        nac=False,
    ),
    "afm_mixed": dict(  # antiferromagnet with species interleaved so that grouping by species is a non-involutive permutation
        lattice=np.diag([3.02, 3.02, 4.31]),
        symbols=["Fe", "O", "O", "Fe"],
        positions=[[0, 0, 0], [0.5, 0.5, 0], [0, 0, 0.5], [0.5, 0.5, 0.5]],
        magmoms=[2.0, 0.0, 0.0, -2.0],
        choices=[(np.diag([2, 2, 1]), "P"), (np.diag([2, 2, 2]), "P")],
        nac=False,
    ),
    "bct": dict(
        lattice=np.diag([3.25, 3.25, 4.95]),
        symbols=["In", "In"],
        positions=[[0, 0, 0], [0.5, 0.5, 0.5]],
        choices=[(np.diag([2, 2, 2]), "I"), (np.diag([3, 3, 2]), "I"), (np.diag([2, 2, 2]), "auto"), (np.diag([2, 2, 1]), "P")],
        nac=False,
    ),
    "ortho_c": dict(  # C-centred orthorhombic, two species
        lattice=np.diag([3.9, 5.7, 4.6]),
        symbols=["Ga", "Ga", "As", "As"],
        positions=[[0, 0.1, 0.25], [0.5, 0.6, 0.25], [0, 0.62, 0.25], [0.5, 0.12, 0.25]],
        choices=[(np.diag([2, 2, 2]), "C"), (np.diag([2, 1, 2]), "C"), (np.diag([2, 2, 1]), "auto"), (np.diag([2, 2, 2]), "P")],
        nac=True, eps="ortho",
    ),
    "rhombo_hex": dict(  # R-3m in the hexagonal setting, 3 atoms
        lattice=_hex(3.46, 6.7),
        symbols=["Hg", "Hg", "Hg"],
        positions=[[0, 0, 0], [2 / 3, 1 / 3, 1 / 3], [1 / 3, 2 / 3, 2 / 3]],
        choices=[(np.diag([2, 2, 1]), "R"), (np.diag([2, 2, 2]), "R"), (np.diag([3, 3, 1]), "auto"), (np.diag([2, 2, 1]), "P")],
        nac=False,
    ),
    "mono": dict(
        lattice=[[4.3, 0, 0], [0, 3.7, 0], [-1.1, 0, 5.2]],
        symbols=["Mg", "Mg", "O", "O"],
        positions=[[0.12, 0.25, 0.2], [0.88, 0.75, 0.8], [0.4, 0.25, 0.65], [0.6, 0.75, 0.35]],
        choices=[(np.diag([2, 2, 1]), "P"), (np.diag([2, 2, 2]), "P"), (np.diag([1, 2, 2]), "auto"), (np.array([[1, 0, 1], [0, 2, 0], [-1, 0, 1]]), "P")],
        nac=True, eps="mono",
    ),
    "tric": dict(
        lattice=[[4.1, 0.2, 0.1], [0.3, 4.7, -0.2], [0.1, 0.4, 5.3]],
        symbols=["Na", "Cl", "Na", "Cl"],
        positions=[[0.01, 0.02, 0.03], [0.52, 0.49, 0.51], [0.48, 0.03, 0.55], [0.02, 0.55, 0.47]],
        choices=[(np.diag([2, 2, 1]), "P"), (np.diag([2, 2, 2]), "P"), (np.array([[1, 1, 0], [0, 2, 0], [0, 0, 2]]), "P"), (np.diag([2, 1, 2]), "auto")],
        nac=True, eps="tric",
    ),
    "perovskite": dict(  # cubic ABO3: the three O atoms carry uniaxial Born tensors related by the 3-fold axes
        lattice=np.eye(3) * 3.905,
        symbols=["Sr", "Ti", "O", "O", "O"],
        positions=[[0, 0, 0], [0.5, 0.5, 0.5], [0.5, 0.5, 0], [0.5, 0, 0.5], [0, 0.5, 0.5]],
        choices=[(np.diag([1, 1, 1]), "P"), (np.diag([2, 2, 1]), "P"), (np.diag([2, 2, 2]), "P"), (np.diag([2, 1, 1]), "auto")],
        nac=True, eps="cubic",
    ),
    "nacl_mixed_out": dict(  # interleaved species, positions outside [0,1)
        lattice=np.eye(3) * 5.69,
        symbols=["Na", "Cl", "Na", "Cl", "Na", "Cl", "Na", "Cl"],
        positions=[[0, 0, 0], [1.5, 0.5, 0.5], [0, -0.5, 0.5], [0.5, 1.0, -1.0], [1.5, 0, 0.5], [0, 0.5, 2.0], [-0.5, 0.5, 0], [0, 0, -0.5]],
        choices=[(np.diag([1, 1, 1]), "F"), (np.diag([2, 2, 2]), "F"), (np.diag([1, 1, 2]), "auto")],
        nac=True, eps="cubic",
    ),
}

SMALL = ["perovskite", "nacl_prim", "cscl", "hcp", "hcp_6dec", "afm_mixed", "bcc_afm", "bcc_noncollinear", "bct", "rhombo_hex", "wurtzite", "tric", "mono", "ortho_c", "rutile", "si", "nacl"]


class World:
    """A concrete world.  `spec` is JSON-able and regenerates the same world."""

    def __init__(self, spec: dict):
        self.spec = spec
        c = CRYSTALS[spec["crystal"]]
        self.crystal = c
        self.name = spec["crystal"]
        self.supercell_matrix = np.array(spec["supercell_matrix"], dtype=int)
        self.primitive_matrix = spec["primitive_matrix"]
        self.springs = spec["springs"]  # {"A-B": [kL, kT], "r0": r0}
        self.nac_method = spec.get("nac")  # None | "gonze" | "wang"
        self.scale = float(spec.get("length_scale", 1.0))

    # ---- construction of seeded specs
    @staticmethod
    def generate(seed: int, names=None, max_atoms=64, allow_nac=True, force_nac=None, force_crystal=None) -> "World":
        rng = rng_of(seed, "world")
        names = list(names or CRYSTALS)
        for _ in range(100):
            name = force_crystal or rng.choice(names)
            c = CRYSTALS[name]
            smat, pmat = rng.choice(c["choices"])
            natom = len(c["symbols"]) * abs(int(round(np.linalg.det(smat))))
            if natom <= max_atoms:
                break
        species = sorted(set(c["symbols"]))
        springs = {}
        for a, b in itertools.combinations_with_replacement(species, 2):
            kl = round(rng.uniform(1.0, 6.0), 3)
            kt = round(rng.uniform(0.1, 0.4) * kl, 3)
            springs["%s-%s" % (a, b)] = [kl, kt]
        springs["r0"] = round(rng.uniform(0.9, 1.6), 3)
        nac = None
        if allow_nac and c.get("nac"):
            nac = rng.choice([None, "gonze", "wang"]) if force_nac is None else force_nac
        if force_nac is not None and not c.get("nac"):
            nac = None
        spec = dict(crystal=name, supercell_matrix=np.array(smat).tolist(), primitive_matrix=pmat, springs=springs, nac=nac,
                    z=round(rng.uniform(0.6, 1.8), 3), eps=[round(rng.uniform(2.0, 5.0), 3) for _ in range(4)],
                    born_aniso=rng.choice([0.0, 0.25, 0.4]))
        return World(spec)

    # ---- phonopy objects
    def unitcell(self):
        from phonopy.structure.atoms import PhonopyAtoms

        c = self.crystal
        kw = {}
        if c.get("magmoms") is not None:
            kw["magnetic_moments"] = [list(m) if isinstance(m, (list, tuple)) else m for m in c["magmoms"]]
        return PhonopyAtoms(symbols=list(c["symbols"]), cell=np.array(c["lattice"], dtype=float) * self.scale,
                            scaled_positions=np.array(c["positions"], dtype=float), **kw)

    def phonopy(self, **kw):
        from phonopy import Phonopy

        args = dict(supercell_matrix=self.supercell_matrix, primitive_matrix=self.primitive_matrix, log_level=0)
        args.update(kw)
        return Phonopy(self.unitcell(), **args)

    def force_constants(self, supercell) -> np.ndarray:
        """Spring-model force constants of the given supercell, shape (N,N,3,3), eV/A^2."""
        lat = np.array(supercell.cell, dtype=float)
        frac = np.array(supercell.scaled_positions, dtype=float)
        sym = [re.sub(r"\d+$", "", x) for x in supercell.symbols]  # extended symbols (Cl1) share the species' springs
        n = len(sym)
        r0 = self.springs["r0"]
        rng_imgs = np.array(list(itertools.product(range(-2, 3), repeat=3)), dtype=float)  # 125 images
        d0 = frac[None, :, :] - frac[:, None, :]
        d0 -= np.rint(d0)
        fc = np.zeros((n, n, 3, 3))
        kl = np.zeros((n, n))
        kt = np.zeros((n, n))
        for i in range(n):
            for j in range(n):
                a, b = sorted((sym[i], sym[j]))
                kl[i, j], kt[i, j] = self.springs["%s-%s" % (a, b)]
        eye = np.eye(3)
        for i in range(n):
            vec = (d0[i][:, None, :] + rng_imgs[None, :, :]) @ lat  # (n,125,3)
            dist = np.linalg.norm(vec, axis=2)
            for j in range(n):
                if i == j:
                    continue
                dmin = dist[j].min()
                # equidistant periodic images share the spring; the window is wide enough that positions carried by a
                # 6-decimal structure file (ABACUS STRU) select the same images as the exact ones
                sel = np.where(dist[j] < dmin + 1e-3)[0]
                phi = np.zeros((3, 3))
                for s in sel:
                    e = vec[j, s] / dist[j, s]
                    ee = np.outer(e, e)
                    phi -= kl[i, j] * ee + kt[i, j] * (eye - ee)
                phi *= np.exp(-dmin / r0) / len(sel)
                fc[i, j] = phi
        # i<->j symmetry exactly, then the acoustic sum rule
        fc = 0.5 * (fc + fc.transpose(1, 0, 3, 2))
        for i in range(n):
            fc[i, i] = -fc[i].sum(axis=0) + fc[i, i]
        # "unstable" worlds: all springs repulsive, i.e. imaginary (negative) frequencies everywhere - still a symmetric,
        # translation- and space-group-invariant force-constant matrix
        return np.ascontiguousarray(fc * float(self.spec.get("fc_sign", 1.0)))

    def nac_params(self, primitive):
        if not self.nac_method:
            return None
        sym = [re.sub(r"\d+$", "", x) for x in primitive.symbols]
        species = sorted(set(sym))
        z = self.spec["z"]
        counts = {s: sym.count(s) for s in species}
        # neutral isotropic effective charges: first species +z, the rest share the compensation
        charges = {}
        if len(species) < 2:
            return None
        first = species[0]
        charges[first] = z
        rest = sum(counts[s] for s in species[1:])
        for s in species[1:]:
            charges[s] = -z * counts[first] / rest
        born = np.array([np.eye(3) * charges[s] for s in sym])
        e = self.spec["eps"]
        kind = self.crystal.get("eps", "cubic")
        if kind == "cubic":
            eps = np.eye(3) * e[0]
        elif kind == "uniaxial":
            eps = np.diag([e[0], e[0], e[1]])
        elif kind == "ortho":
            eps = np.diag([e[0], e[1], e[2]])
        elif kind == "mono":  # unique axis b
            eps = np.array([[e[0], 0, 0.2], [0, e[1], 0], [0.2, 0, e[2]]])
        else:
            eps = np.array([[e[0], 0.1, 0.2], [0.1, e[1], -0.15], [0.2, -0.15, e[2]]])
        amp = float(self.spec.get("born_aniso", 0.0))
        if amp > 0:
            # anisotropic, site-dependent Born tensors: seeded perturbation, made neutral, then projected onto the crystal's
            # symmetry with phonopy's own symmetriser (worlds are input generation; this only has to yield a *valid* input)
            from phonopy.structure.symmetry import symmetrize_borns_and_epsilon

            g = np.random.Generator(np.random.PCG64(int(z * 1000) + 7919 * len(sym)))
            born = born + amp * z * g.standard_normal(born.shape)
            born -= born.mean(axis=0)[None, :, :]
            import contextlib
            import io

            import warnings

            with contextlib.redirect_stdout(io.StringIO()), warnings.catch_warnings():
                warnings.simplefilter("ignore")
                born, eps = symmetrize_borns_and_epsilon(born, eps, primitive)
            born = np.array(born, dtype="double", order="C")
            eps = np.array(eps, dtype="double", order="C")
            born -= born.mean(axis=0)[None, :, :]
        from phonopy.interface.calculator import get_default_physical_units

        return {"born": born, "dielectric": eps, "factor": get_default_physical_units("vasp")["nac_factor"], "method": self.nac_method}

    def build(self, with_fc=True, compact=False, **kw):
        """Phonopy object with the model's force constants (and NAC) set."""
        ph = self.phonopy(**kw)
        if self.nac_method:
            n = self.nac_params(ph.primitive)
            if n is not None:
                ph.nac_params = n
        if with_fc:
            fc = self.force_constants(ph.supercell)
            if compact:
                fc = np.ascontiguousarray(fc[ph.primitive.p2s_map])
            ph.force_constants = fc
        return ph

    def forces_for(self, fc_full: np.ndarray, displacements: np.ndarray) -> np.ndarray:
        """Exactly harmonic forces F = -Phi u for a full-supercell displacement field (N,3)."""
        return -np.einsum("ijab,jb->ia", fc_full, displacements)

    def type1_forces(self, ph, fc_full):
        """Fill the forces of a type-1 dataset of `ph` from the model; returns the list of force arrays."""
        ds = ph.dataset
        out = []
        n = fc_full.shape[0]
        for d in ds["first_atoms"]:
            u = np.zeros((n, 3))
            u[d["number"]] = d["displacement"]
            out.append(self.forces_for(fc_full, u))
        return out


def qpoint_pool(rng, n):
    """q-points incl. Gamma, zone boundary, outside the first zone, generic."""
    special = [[0, 0, 0], [0.5, 0, 0], [0.5, 0.5, 0], [0.5, 0.5, 0.5], [0, 0.5, 0.5], [1.0, 0, 0], [1.1, 0.2, -0.3], [-0.5, 0.25, 0], [1e-7, 0, 0],
               [1 / 3, 1 / 3, 0], [0.25, 0.25, 0.25]]
    out = []
    for _ in range(n):
        if rng.random() < 0.45:
            out.append(list(rng.choice(special)))
        else:
            out.append([round(rng.uniform(-0.6, 0.6), 4) for _ in range(3)])
    return out

"""Common machinery: seed tree, digests, fork-isolated runs, ddmin, replay files,
known findings, evidence.  No PRNG is drawn and no clock is read in any logging
path; wall-clock is used only for (a) the wall_s/runs-per-hour numbers of the
evidence file and (b) the safety-net timeout that always yields exit 2."""

from __future__ import annotations

import hashlib
import json
import os
import pickle
import random
import select
import signal
import sys
import time
import traceback
import zlib

VERIF = os.path.dirname(os.path.dirname(os.path.abspath(__file__)))
MASK = (1 << 64) - 1


# ------------------------------------------------------------------ seeds
def splitmix64(x: int) -> int:
    x = (x + 0x9E3779B97F4A7C15) & MASK
    z = x
    z = ((z ^ (z >> 30)) * 0xBF58476D1CE4E5B9) & MASK
    z = ((z ^ (z >> 27)) * 0x94D049BB133111EB) & MASK
    return z ^ (z >> 31)


def run_seed(base_seed: int, prop: str, index: int) -> int:
    """Seed of run `index` of check `prop` under VERIF_SEED=base_seed."""
    s = splitmix64((base_seed & MASK) ^ zlib.crc32(prop.encode()))
    return splitmix64(s ^ ((index * 0x9E3779B97F4A7C15) & MASK))


def sub_seed(seed: int, *tags) -> int:
    s = seed & MASK
    for t in tags:
        if isinstance(t, str):
            t = zlib.crc32(t.encode())
        s = splitmix64(s ^ (int(t) & MASK))
    return s


def rng_of(seed: int, *tags) -> random.Random:
    return random.Random(sub_seed(seed, *tags))


def base_seed() -> int:
    try:
        return int(os.environ.get("VERIF_SEED", "0"))
    except ValueError:
        return zlib.crc32(os.environ["VERIF_SEED"].encode())


# ------------------------------------------------------------------ digests
def _canon(obj, h):
    import numpy as np

    if obj is None:
        h.update(b"N")
    elif isinstance(obj, bool):
        h.update(b"T" if obj else b"F")
    elif isinstance(obj, (int, np.integer)):
        h.update(b"i" + str(int(obj)).encode())
    elif isinstance(obj, (float, np.floating)):
        h.update(b"f" + float(obj).hex().encode())
    elif isinstance(obj, (complex, np.complexfloating)):
        c = complex(obj)
        h.update(b"c" + c.real.hex().encode() + b"," + c.imag.hex().encode())
    elif isinstance(obj, str):
        h.update(b"s" + obj.encode())
    elif isinstance(obj, bytes):
        h.update(b"b" + obj)
    elif isinstance(obj, np.ndarray):
        a = np.ascontiguousarray(obj)
        h.update(b"a" + str(a.dtype).encode() + str(a.shape).encode())
        h.update(a.tobytes())
    elif isinstance(obj, (list, tuple)):
        h.update(b"[")
        for x in obj:
            _canon(x, h)
        h.update(b"]")
    elif isinstance(obj, dict):
        h.update(b"{")
        for k in sorted(obj, key=str):
            _canon(str(k), h)
            _canon(obj[k], h)
        h.update(b"}")
    else:
        h.update(b"r" + repr(obj).encode())


def digest(obj) -> str:
    h = hashlib.sha256()
    _canon(obj, h)
    return h.hexdigest()


# ------------------------------------------------------------------ fork-isolated execution
class Outcome:
    __slots__ = ("kind", "value", "detail")

    def __init__(self, kind, value=None, detail=""):
        self.kind = kind  # ok | crash | timeout | exc | exit
        self.value = value
        self.detail = detail

    def __repr__(self):
        return "Outcome(%s, %r)" % (self.kind, self.detail or self.value)


def _child(func, arg, wfd, quiet):
    try:
        if quiet:
            dn = os.open(os.devnull, os.O_WRONLY)
            os.dup2(dn, 1)
            if not os.environ.get("VERIF_DEBUG"):
                os.dup2(dn, 2)
        try:
            res = ("ok", func(arg))
        except BaseException:  # noqa: BLE001
            res = ("exc", traceback.format_exc())
        data = pickle.dumps(res, protocol=4)
        with os.fdopen(wfd, "wb", closefd=True) as w:
            w.write(data)
    finally:
        os._exit(0)


def map_isolated(func, args, workers=None, timeout=600.0, quiet=True, on_result=None):
    """Run func(arg) for every arg, each in its own forked child of this (pristine)
    process.  Returns a list of Outcome in the order of `args` (independent of the
    worker count).  A child killed by a signal is Outcome('crash'); the wall-clock
    timeout is a safety net only and yields Outcome('timeout')."""
    workers = workers or int(os.environ.get("VERIF_WORKERS", "0")) or os.cpu_count() or 4
    args = list(args)
    n = len(args)
    out = [None] * n
    running = {}  # rfd -> [pid, idx, buf, t0]
    nxt = 0
    sys.stdout.flush()
    sys.stderr.flush()
    while nxt < n or running:
        while nxt < n and len(running) < workers:
            r, w = os.pipe()
            pid = os.fork()
            if pid == 0:
                os.close(r)
                for rfd in running:
                    try:
                        os.close(rfd)
                    except OSError:
                        pass
                _child(func, args[nxt], w, quiet)
            os.close(w)
            running[r] = [pid, nxt, bytearray(), time.monotonic()]
            nxt += 1
        rl, _, _ = select.select(list(running), [], [], 1.0)
        now = time.monotonic()
        for r in rl:
            ent = running[r]
            chunk = os.read(r, 1 << 20)
            if chunk:
                ent[2] += chunk
                continue
            os.close(r)
            del running[r]
            _, status = os.waitpid(ent[0], 0)
            if os.WIFSIGNALED(status):
                o = Outcome("crash", os.WTERMSIG(status), "signal %d" % os.WTERMSIG(status))
            elif ent[2]:
                try:
                    kind, val = pickle.loads(bytes(ent[2]))
                    o = Outcome(kind, val, val if kind == "exc" else "")
                except Exception as e:  # noqa: BLE001
                    o = Outcome("exc", None, "unpicklable result: %r" % e)
            else:
                o = Outcome("exit", os.WEXITSTATUS(status), "child exited with status %d and no result" % os.WEXITSTATUS(status))
            out[ent[1]] = o
            if on_result:
                on_result(ent[1], o)
        for r, ent in list(running.items()):
            if now - ent[3] > timeout:
                try:
                    os.kill(ent[0], signal.SIGKILL)
                except ProcessLookupError:
                    pass
                os.close(r)
                del running[r]
                os.waitpid(ent[0], 0)
                out[ent[1]] = Outcome("timeout", None, "wall-clock safety net (%.0fs)" % timeout)
                if on_result:
                    on_result(ent[1], out[ent[1]])
    return out


def call_isolated(func, arg, timeout=600.0, quiet=True) -> Outcome:
    return map_isolated(func, [arg], workers=1, timeout=timeout, quiet=quiet)[0]


# ------------------------------------------------------------------ minimisation
def ddmin(items, test, max_tests=200):
    """Classic ddmin: smallest sublist (order kept) for which test(sublist) is True.
    `test(items)` must be True on entry."""
    items = list(items)
    n = 2
    tests = 0
    while len(items) >= 2 and tests < max_tests:
        chunk = max(1, len(items) // n)
        subsets = [items[i : i + chunk] for i in range(0, len(items), chunk)]
        reduced = False
        for i in range(len(subsets)):
            comp = [x for j, s in enumerate(subsets) if j != i for x in s]
            tests += 1
            if comp and test(comp):
                items = comp
                n = max(n - 1, 2)
                reduced = True
                break
            if tests >= max_tests:
                break
        if not reduced:
            if n >= len(items):
                break
            n = min(len(items), n * 2)
    if len(items) == 1 and tests < max_tests:
        pass
    return items


# ------------------------------------------------------------------ known findings
class KnownFindings:
    def __init__(self, path=None):
        self.path = path or os.path.join(VERIF, "known_findings.json")
        try:
            with open(self.path) as f:
                self.entries = json.load(f).get("findings", [])
        except FileNotFoundError:
            self.entries = []

    def match(self, prop: str, violation: dict):
        """Return the 'known' entry that lists this violation, else None.  An entry
        matches when every key of its `match` dict equals the violation's value
        (a list in the entry means 'one of')."""
        for e in self.entries:
            if e.get("property") != prop or e.get("status") != "known":
                continue
            ok = True
            for k, v in e.get("match", {}).items():
                got = violation.get(k)
                if isinstance(v, list):
                    if got not in v:
                        ok = False
                        break
                elif got != v:
                    ok = False
                    break
            if ok:
                return e
        return None


# ------------------------------------------------------------------ replay files / evidence
def write_replay(prop: str, seed: int, payload: dict) -> str:
    d = os.path.join(VERIF, "replays")
    os.makedirs(d, exist_ok=True)
    v = payload.get("violation", {})
    tag = "%08x" % zlib.crc32(("%s|%s" % (v.get("class"), v.get("site"))).encode())
    p = os.path.join(d, "%s-%d-%s.json" % (prop, seed, tag))
    with open(p, "w") as f:
        json.dump(payload, f, indent=1, sort_keys=True, default=_json_default)
    return p


def _json_default(o):
    import numpy as np

    if isinstance(o, np.ndarray):
        return o.tolist()
    if isinstance(o, (np.integer,)):
        return int(o)
    if isinstance(o, (np.floating,)):
        return float(o)
    if isinstance(o, complex):
        return [o.real, o.imag]
    if isinstance(o, (set, frozenset)):
        return sorted(o)
    return repr(o)


def write_evidence(prop: str, tier: str, seed: int, coverage: dict, wall_s: float, violations: int, assumptions, level="exploration"):
    if os.environ.get("VERIF_NO_EVIDENCE") == "1":  # self-tests must not overwrite the evidence of a real check run
        return None
    d = os.path.join(VERIF, "evidence")
    os.makedirs(d, exist_ok=True)
    ev = {
        "property_id": prop,
        "tier": tier,
        "seed": int(seed),
        "level": level,
        "coverage": coverage,
        "assumptions": list(assumptions),
        "wall_s": round(float(wall_s), 3),
        "violations": int(violations),
    }
    p = os.path.join(d, "%s.json" % prop)
    tmp = p + ".tmp"
    with open(tmp, "w") as f:
        json.dump(ev, f, indent=1, sort_keys=True, default=_json_default)
    os.replace(tmp, p)
    return p


def add_counts(total: dict, part: dict):
    for k, v in (part or {}).items():
        if isinstance(v, dict):
            add_counts(total.setdefault(k, {}), v)
        else:
            total[k] = total.get(k, 0) + v
    return total


# ------------------------------------------------------------------ environment pinning
PINNED_ENV = {
    "PYTHONHASHSEED": "0",
    "OPENBLAS_NUM_THREADS": "1",
    "OMP_NUM_THREADS": "1",
    "MKL_NUM_THREADS": "1",
    "LC_ALL": "C",
    "TZ": "UTC",
    "PYTHONDONTWRITEBYTECODE": "1",
}


def reexec_pinned():
    """Re-exec once so that nothing but VERIF_SEED influences a run."""
    if os.environ.get("SIMVERIF_PINNED") == "1":
        return
    env = dict(os.environ)
    for k, v in PINNED_ENV.items():
        if k == "PYTHONHASHSEED" and "VERIF_HASHSEED" in env:
            env[k] = env["VERIF_HASHSEED"]
        else:
            env[k] = v
    env["SIMVERIF_PINNED"] = "1"
    repo = env.get("VERIF_REPO", "/repo")
    env["PYTHONPATH"] = os.pathsep.join([repo, VERIF])
    os.execve(sys.executable, list(sys.orig_argv), env)

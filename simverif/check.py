"""Entry point:  python -m simverif.check <ID> --tier quick|thorough [--replay FILE] [--runs N]

Exit codes: 0 = the property held on everything explored (known findings are
printed as KNOWN-FINDING lines); 1 = a violation that known_findings.json does
not list (printed as `VIOLATION property=<id> replay=<path>`); 2 = harness
error (never confused with either of the above).
"""

from __future__ import annotations

import argparse
import importlib
import json
import os
import sys
import time

from . import core

CHECKS = {
    "C13": "simverif.check_c13",
    "C14": "simverif.check_c14",
    "C15": "simverif.check_c15",
    "C16": "simverif.check_c16",
    "C17": "simverif.check_c17",
    "C18": "simverif.check_c18",
}


def vkey(v):
    return (v.get("class"), v.get("site"))


def run_check(mod, tier, seed, nruns=None, workers=None, verbose=False):
    prop = mod.PROP
    t0 = time.time()
    kf = core.KnownFindings()
    mod.prepare(tier)
    n = nruns if nruns is not None else mod.n_runs(tier)
    specs = [mod.gen_spec(core.run_seed(seed, prop, i), i, tier) for i in range(n)]
    timeout = getattr(mod, "RUN_TIMEOUT", 900.0)
    progress = {"done": 0}

    def on_result(i, o):
        progress["done"] += 1
        if verbose and (progress["done"] % 50 == 0 or o.kind != "ok"):
            print("  [%d/%d] run %d: %s" % (progress["done"], n, i, o.kind), file=sys.stderr, flush=True)

    outcomes = core.map_isolated(mod.execute, specs, workers=workers, timeout=timeout, on_result=on_result)

    harness_errors = []
    unknown = []  # (index, violation)
    known_hits = {}
    agg = {"faults": {}, "probes": {}, "steps": {}, "components": {}}
    sigs = set()
    sigs_nontrivial = set()
    digests = []
    samples = []
    skipped = 0
    for i, o in enumerate(outcomes):
        if o.kind == "crash" and getattr(mod, "CRASH_IS_VIOLATION", False):
            res = {"digest": "crash", "violations": [dict({"class": "crash", "site": "signal-%s" % o.value}, detail=o.detail)], "sig": "crash"}
        elif o.kind != "ok":
            harness_errors.append((i, o))
            continue
        else:
            res = o.value
        digests.append(res.get("digest"))
        core.add_counts(agg["faults"], res.get("faults"))
        core.add_counts(agg["probes"], res.get("probes"))
        core.add_counts(agg["steps"], res.get("steps"))
        skipped += res.get("skipped", 0)
        for s in res.get("sigs", [res.get("sig")]):
            sigs.add(s)
        for s in res.get("sigs_nontrivial", ([res.get("sig")] if res.get("nontrivial") else [])):
            sigs_nontrivial.add(s)
        if len(samples) < 4 and res.get("sample") is not None:
            samples.append(res["sample"])
        for v in res.get("violations", []):
            e = kf.match(prop, v)
            if e is not None:
                known_hits.setdefault(e["key"], [e, 0])[1] += 1
            else:
                unknown.append((i, v))

    for key, (e, cnt) in sorted(known_hits.items()):
        print("KNOWN-FINDING: property=%s %s [%s; seen in %d result(s) of this run]" % (prop, e["text"], key, cnt))

    exit_code = 0
    reported = []
    if unknown:
        # one report per distinct (class, site); minimise, replay once, then report
        seen = {}
        for i, v in unknown:
            seen.setdefault(vkey(v), (i, v))
        for (cls, site), (i, v) in sorted(seen.items(), key=lambda kv: str(kv[0])):
            spec = specs[i]
            mspec, mv = minimise(mod, spec, v, kf)
            payload = {
                "property": prop,
                "verif_seed": seed,
                "run_index": i,
                "run_seed": spec.get("seed"),
                "violation": mv,
                "spec": mspec,
                "original_spec_size": len(json.dumps(spec, default=core._json_default)),
            }
            path = core.write_replay(prop, spec.get("seed", i), payload)
            ok = replay_file(mod, path, quiet=True)
            print("VIOLATION property=%s replay=%s" % (prop, path))
            print("  class=%s site=%s detail=%s replay_reproduces=%s" % (cls, site, str(mv.get("detail"))[:400], ok))
            reported.append(dict(cls=cls, site=site, replay=path))
        exit_code = 1
    if harness_errors:
        for i, o in harness_errors[:5]:
            print("HARNESS-ERROR run %d (seed %s): %s %s" % (i, specs[i].get("seed"), o.kind, str(o.detail)[-1500:]), file=sys.stderr)
        if exit_code == 0:
            exit_code = 2

    wall = time.time() - t0
    n_ok = len(digests)
    coverage = {
        "evaluations": n_ok,
        "distinct_nontrivial": len(sigs_nontrivial),
        "rule": mod.RULE,
        "samples": samples,
        "distinct_signatures": len(sigs),
        "distinct_run_digests": len(set(digests)),
        "runs_per_hour": round(n_ok / wall * 3600.0, 1) if wall > 0 else 0,
        "seeds": {"VERIF_SEED": seed, "first_run_seeds": [s.get("seed") for s in specs[:5]], "n": n},
        "fault_counts_fired": agg["faults"],
        "probes": agg["probes"],
        "logical_steps": agg["steps"],
        "simulated_time": "none: no checked code reads a clock; progress is reported as logical steps",
        "components": mod.components(),
        "skipped_ill_conditioned": skipped,
        "known_findings_seen": {k: c for k, (e, c) in known_hits.items()},
        "harness_errors": len(harness_errors),
        "batch_digest": core.digest(digests),
    }
    if hasattr(mod, "extra_coverage"):
        coverage.update(mod.extra_coverage(outcomes))
    core.write_evidence(prop, tier, seed, coverage, wall, len(reported), mod.ASSUMPTIONS)
    print("%s tier=%s seed=%d runs=%d ok=%d distinct_nontrivial=%d violations=%d known=%d harness_errors=%d wall=%.1fs batch_digest=%s" % (
        prop, tier, seed, n, n_ok, len(sigs_nontrivial), len(reported), len(known_hits), len(harness_errors), wall, coverage["batch_digest"][:16]))
    return exit_code


def _still_fails(mod, spec, v, kf):
    o = core.call_isolated(mod.execute, spec, timeout=getattr(mod, "RUN_TIMEOUT", 900.0))
    if o.kind == "crash" and getattr(mod, "CRASH_IS_VIOLATION", False):
        return {"class": "crash", "site": "signal-%s" % o.value} if v.get("class") == "crash" else None
    if o.kind != "ok":
        return None
    for w in o.value.get("violations", []):
        if vkey(w) == vkey(v) and kf.match(mod.PROP, w) is None:
            return w
    return None


def minimise(mod, spec, v, kf):
    """Shrink the failing spec while the same violation (class, site) persists."""
    if not hasattr(mod, "shrink_candidates"):
        return spec, v
    cur, curv = spec, v
    budget = getattr(mod, "SHRINK_BUDGET", 60)
    improved = True
    while improved and budget > 0:
        improved = False
        for cand in mod.shrink_candidates(cur):
            if budget <= 0:
                break
            budget -= 1
            w = _still_fails(mod, cand, v, kf)
            if w is not None:
                cur, curv = cand, w
                improved = True
                break
    return cur, curv


def replay_file(mod, path, quiet=False):
    with open(path) as f:
        payload = json.load(f)
    mod.prepare("replay")
    o = core.call_isolated(mod.execute, payload["spec"], timeout=getattr(mod, "RUN_TIMEOUT", 900.0))
    want = payload["violation"]
    if o.kind == "crash" and getattr(mod, "CRASH_IS_VIOLATION", False):
        got = [{"class": "crash", "site": "signal-%s" % o.value}]
    elif o.kind != "ok":
        if not quiet:
            print("replay: harness outcome %s %s" % (o.kind, o.detail))
        return False
    else:
        got = o.value.get("violations", [])
    hit = [w for w in got if vkey(w) == (want.get("class"), want.get("site"))]
    if not quiet:
        for w in hit:
            print("replay reproduces: class=%s site=%s detail=%s" % (w.get("class"), w.get("site"), str(w.get("detail"))[:600]))
        if not hit:
            print("replay: violation not reproduced (got %d other violations)" % len(got))
    return bool(hit)


def main(argv=None):
    ap = argparse.ArgumentParser()
    ap.add_argument("prop")
    ap.add_argument("--tier", default=os.environ.get("VERIF_TIER", "quick"), choices=["quick", "thorough"])
    ap.add_argument("--replay")
    ap.add_argument("--runs", type=int)
    ap.add_argument("--workers", type=int)
    ap.add_argument("-v", "--verbose", action="store_true")
    a = ap.parse_args(argv)
    core.reexec_pinned()
    if a.prop not in CHECKS:
        print("unknown property %s" % a.prop, file=sys.stderr)
        return 2
    try:
        mod = importlib.import_module(CHECKS[a.prop])
        if a.replay:
            ok = replay_file(mod, a.replay)
            if ok:
                print("VIOLATION property=%s replay=%s" % (a.prop, a.replay))
                return 1
            return 0
        return run_check(mod, a.tier, core.base_seed(), a.runs, a.workers, a.verbose)
    except SystemExit:
        raise
    except BaseException:  # noqa: BLE001
        import traceback

        traceback.print_exc()
        return 2


if __name__ == "__main__":
    sys.exit(main())

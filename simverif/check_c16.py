"""C16 — saving and reloading a calculation reproduces it (claimed in part).

Deciding method: a writer process W (real Phonopy.save / file_IO writers) and a
restarted reader process R (real phonopy.load / parsers) share nothing but the
run's simulated directory.  W is killed with os._exit right after the write is
acknowledged; stale files of an unrelated earlier calculation are placed under
the auto-discovered names; an I/O error is injected on the k-th written byte;
R reads by filename or from a chunk-limited stream, and optionally re-saves for
a second generation.  The parent compares canonical snapshots of W and R to the
precision of the written text (read off the file).
"""

from __future__ import annotations

import bz2
import copy
import gzip
import lzma
import os
import shutil

import numpy as np

from . import core, simfs
from .world import World, CRYSTALS

PROP = "C16"
RUN_TIMEOUT = 900.0
SHRINK_BUDGET = 60
RULE = (
    "one evaluation = one writer->directory->reader protocol run: seeded world and object variant (dataset type 1/2, with/without forces and "
    "energies; full/compact/no force constants; NAC kind; extended symbols; magnetic moments; custom masses; calculator), seeded save "
    "settings and compression, seeded faults (stale files under auto-discovered names, write error at byte k, short-read stream, "
    "re-compression, second generation); distinct = distinct (object variant, settings, compression, fault set, read mode); non-trivial = "
    "at least one fault fired, or the file was compressed, or a second generation was loaded"
)
ASSUMPTIONS = [
    "precision of the written text is read per section from the number of decimals actually printed in the file W wrote",
    "stale files are injected only where load()'s documented priority list says they must lose against data contained in the saved file",
    "phonon-level agreement after reload is judged on D(q) at 1e-6*scale (masses and NAC factor are printed with %f)",
    "type-2 datasets are not turned into force constants (symfc/ALM absent): for them cells, matrices, dataset, NAC, calculator are compared",
    "values are those the seeded worlds produce; the printable floating-point range is not swept (input generation, not simulation)",
]
CALCS = [None, None, "vasp", "qe", "abinit", "wien2k", "crystal", "turbomole"]

_E = None


def prepare(tier):
    global _E
    if _E is None:
        from .ext import Ext

        _E = Ext(("serial",))


def components():
    return {
        "real": ["Phonopy.save, PhonopyYaml dumper/loader, phonopy.load + load_helper priority rules, file_IO write_/parse_ FORCE_SETS, FORCE_CONSTANTS, force_constants.hdf5, BORN",
                 "serial build of the compiled kernels", "PyYAML, h5py, lzma/gzip/bz2"],
        "simulated": ["process boundary: writer and reader are separate forked processes sharing only the directory; writer is killed with os._exit right after the write returns",
                      "directory content: stale files of an unrelated calculation", "I/O: ENOSPC at byte k through builtins.open, chunk-limited read stream"],
        "stub": ["nanobind -> binding shim"],
    }


def n_runs(tier):
    return 1500 if tier == "quick" else 30000


# ------------------------------------------------------------------ spec
def gen_spec(seed, index, tier):
    rng = core.rng_of(seed, "c16")
    faulty = index % 2 == 1
    w = World.generate(seed, max_atoms=rng.choice([8, 16, 24, 32]))
    has_nac = bool(CRYSTALS[w.name].get("nac"))
    obj = dict(
        dataset=rng.choice([None, "t1", "t1", "t1_noforce", "t1_partial", "t2", "t2_noforce"]),
        energies=rng.random() < 0.4,
        fc=rng.choice([None, "full", "compact"]),
        ext_symbols=rng.random() < 0.25 and len(set(CRYSTALS[w.name]["symbols"])) > 1,
        custom_masses=rng.random() < 0.3,
        calculator=rng.choice(CALCS),
        is_symmetry=rng.random() < 0.9,
        value_scale=rng.choice([1.0, 1.0, 1.0, 1.0, 1e4, 1e7]),
        pmat_none=rng.random() < 0.15,
    )
    if obj["dataset"] is None and obj["fc"] is None:
        obj["fc"] = "full"
    settings = {}
    for k in ("force_sets", "displacements", "force_constants", "born_effective_charge", "dielectric_constant"):
        if rng.random() < 0.3:
            settings[k] = rng.random() < 0.5
    save = dict(settings=settings if rng.random() < 0.7 else None, compression=rng.choice([False, False, True, "xz"]), filename=rng.choice(["phonopy_params.yaml", "saved.yaml", "phonopy.yaml"]))
    spec = dict(seed=seed, world=w.spec, obj=obj, save=save, stale=[], stale_when="before", write_fault=None, recompress=None,
                read=dict(mode="filename", chunk=0, is_compact_fc=rng.random() < 0.5, symmetrize_fc=rng.random() < 0.5, is_nac=True),
                generations=1, pairs=sorted(rng.sample(["FORCE_SETS", "FORCE_CONSTANTS", "hdf5", "BORN", "convert"], rng.randint(0, 3))), faulty=faulty)
    # history inside the writer process: earlier saves of the same object with other settings (a process-global default
    # mutated by one call must not leak into the next)
    # documented fall-back order when the saved file carries neither forces nor force constants:
    # FORCE_CONSTANTS (5) > force_constants.hdf5 (6) > FORCE_SETS (7), each from a differently scaled model
    # a file named explicitly in the load() call precedes what the yaml holds (documented priority 1 and 2 before 3 and 4)
    spec["explicit"] = rng.choice([None, None, None, None, "force_constants_filename", "force_sets_filename"])
    spec["fallback"] = sorted(rng.sample(["FORCE_CONSTANTS", "force_constants.hdf5", "FORCE_SETS"], rng.randint(2, 3))) if rng.random() < 0.25 else []
    spec["pre_saves"] = []
    if rng.random() < 0.35:
        for i in range(rng.randint(1, 2)):
            ps = {k: rng.random() < 0.5 for k in ("force_sets", "displacements", "force_constants", "born_effective_charge", "dielectric_constant") if rng.random() < 0.6}
            spec["pre_saves"].append(dict(settings=ps, filename="earlier_%d.yaml" % i, compression=rng.choice([False, False, True])))
    if faulty:
        kinds = rng.sample(["stale", "write_fault", "stream", "recompress", "gen2"], rng.randint(1, 3))
        if "stale" in kinds:
            spec["stale"] = sorted(rng.sample(["FORCE_SETS", "FORCE_CONSTANTS", "force_constants.hdf5", "BORN"], rng.randint(1, 3)))
            spec["stale_when"] = rng.choice(["before", "after"])
        if "write_fault" in kinds:
            spec["write_fault"] = rng.choice([0, 1, 100, 1000, 4000, 20000, 100000])
        if "stream" in kinds:
            spec["read"]["mode"] = "stream"
            spec["read"]["chunk"] = rng.choice([1, 7, 64, 1000])
        if "recompress" in kinds and not save["compression"]:
            spec["recompress"] = rng.choice(["gz", "bz2", "lzma", "xz"])
        if "gen2" in kinds:
            spec["generations"] = 2
    return spec


# ------------------------------------------------------------------ snapshots
def canon_dataset(ds):
    if ds is None:
        return None
    if "first_atoms" in ds:
        out = {"type": 1, "natom": int(ds["natom"]), "number": [int(d["number"]) for d in ds["first_atoms"]],
               "displacement": np.array([d["displacement"] for d in ds["first_atoms"]], dtype=float)}
        if all("forces" in d for d in ds["first_atoms"]):
            out["forces"] = np.array([d["forces"] for d in ds["first_atoms"]], dtype=float)
        if all("supercell_energy" in d for d in ds["first_atoms"]):
            out["energies"] = np.array([d["supercell_energy"] for d in ds["first_atoms"]], dtype=float)
        return out
    out = {"type": 2, "displacement": np.array(ds["displacements"], dtype=float)}
    if "forces" in ds:
        out["forces"] = np.array(ds["forces"], dtype=float)
    if "supercell_energies" in ds:
        out["energies"] = np.array(ds["supercell_energies"], dtype=float)
    return out


PROBE_Q = [[0.0, 0.0, 0.0], [0.5, 0.0, 0.0], [0.13, 0.27, -0.31]]


def snap(ph, with_phonons=True):
    c = ph.unitcell
    s = {
        "lattice": np.array(c.cell), "positions": np.array(c.scaled_positions), "symbols": list(c.symbols), "masses": np.array(c.masses),
        "magmoms": None if c.magnetic_moments is None else np.array(c.magnetic_moments),
        "supercell_matrix": np.array(ph.supercell_matrix), "primitive_matrix": None if ph.primitive_matrix is None else np.array(ph.primitive_matrix),
        "dataset": canon_dataset(ph.dataset), "calculator": ph.calculator, "factor": float(ph.unit_conversion_factor),
        "p2s_map": np.array(ph.primitive.p2s_map), "n_super": len(ph.supercell), "prim_masses": np.array(ph.primitive.masses),
    }
    fc = ph.force_constants
    s["fc"] = None if fc is None else np.array(fc)
    n = ph.nac_params
    s["nac"] = None if n is None else {"born": np.array(n["born"]), "dielectric": np.array(n["dielectric"]), "factor": n.get("factor"), "method": n.get("method")}
    s["D"] = None
    if with_phonons and fc is not None and ph.dynamical_matrix is not None:
        ds = []
        for q in PROBE_Q:
            ds.append(ph.get_dynamical_matrix_at_q(q))
        s["D"] = np.array(ds)
    return s


# ------------------------------------------------------------------ children
def _unitcell(w, obj):
    from phonopy.structure.atoms import PhonopyAtoms

    c = w.unitcell()
    sym = list(c.symbols)
    masses = np.array(c.masses)
    if obj["ext_symbols"]:
        # all atoms of the last species get an extended symbol (Cl -> Cl1); masses must then be explicit
        target = sorted(set(sym))[-1]
        sym = [s_ + "1" if s_ == target else s_ for s_ in sym]
    if obj["custom_masses"]:
        masses = masses * np.array([1.0 + 0.013 * (ord(s_[0]) % 7) for s_ in sym])
    kw = {}
    if c.magnetic_moments is not None:
        kw["magnetic_moments"] = c.magnetic_moments
    return PhonopyAtoms(symbols=sym, cell=c.cell, scaled_positions=c.scaled_positions, masses=masses, **kw)


def _build(w, obj, scale=1.0, nac_scale=1.0):
    from phonopy import Phonopy
    from phonopy.interface.calculator import get_default_physical_units

    units = get_default_physical_units(obj["calculator"])
    # an object made without a primitive matrix (the unit cell is the primitive cell, also for centred lattices) must come back as such
    pmat = None if obj.get("pmat_none") else w.primitive_matrix
    ph = Phonopy(_unitcell(w, obj), supercell_matrix=w.supercell_matrix, primitive_matrix=pmat, calculator=obj["calculator"],
                 factor=units["factor"], is_symmetry=obj["is_symmetry"], log_level=0)
    # magnitude of forces / force constants / energies: fixed-decimal formats must carry large values too (field widths)
    vs = float(obj.get("value_scale", 1.0))
    fc_full = w.force_constants(ph.supercell) * scale * vs
    if w.nac_method:
        n = w.nac_params(ph.primitive)
        if n is not None:
            n["born"] = n["born"] * nac_scale
            n["factor"] = units["nac_factor"]
            ph.nac_params = n
    d = obj["dataset"]
    if d in ("t1", "t1_noforce", "t1_partial"):
        ph.generate_displacements(distance=0.03)
        if d == "t1_partial":
            # a calculation in progress: only the first displaced supercell has its forces yet
            ds_ = ph.dataset
            ds_["first_atoms"][0]["forces"] = np.array(w.type1_forces(ph, fc_full)[0], dtype="double", order="C")
            for d_ in ds_["first_atoms"][1:]:
                d_.pop("forces", None)
            ph.dataset = ds_
        if d == "t1":
            ph.forces = w.type1_forces(ph, fc_full)
            if obj["energies"]:
                ph.supercell_energies = [(-3.25 - 0.125 * i) * vs for i in range(len(ph.dataset["first_atoms"]))]
    elif d in ("t2", "t2_noforce"):
        ph.generate_displacements(distance=0.03, number_of_snapshots=2, random_seed=11)
        if d == "t2":
            ph.forces = np.array([w.forces_for(fc_full, u) for u in ph.dataset["displacements"]])
        if obj["energies"]:  # energies may be there before (or without) the forces
            ph.supercell_energies = [-3.25 * vs, -3.5 * vs]
    if obj["fc"] == "full":
        ph.force_constants = fc_full.copy()
    elif obj["fc"] == "compact":
        ph.force_constants = np.ascontiguousarray(fc_full[ph.primitive.p2s_map])
    return ph, fc_full


def child_stale(args):
    """An unrelated earlier calculation of the same crystal leaves its files under the default names."""
    spec, path = args
    from phonopy.file_IO import write_BORN, write_FORCE_CONSTANTS, write_FORCE_SETS, write_force_constants_to_hdf5

    os.chdir(path)
    w = World(spec["world"])
    obj = dict(spec["obj"], dataset="t1", fc="full", energies=False)
    scales = spec.get("stale_scales") or {}
    for name in spec["stale"]:
        ph, fc_full = _build(w, obj, scale=scales.get(name, 0.5), nac_scale=0.6)
        if name == "FORCE_SETS":
            write_FORCE_SETS(ph.dataset)
        elif name == "FORCE_CONSTANTS":
            write_FORCE_CONSTANTS(ph.force_constants)
        elif name == "force_constants.hdf5":
            if spec.get("hdf5_label"):
                # labelled with a unit that is NOT the reading calculator's: load() has to convert (values are taken as eV/angstrom^2)
                write_force_constants_to_hdf5(ph.force_constants, physical_unit="eV/angstrom^2")
            else:
                write_force_constants_to_hdf5(ph.force_constants)
        elif name == "BORN" and ph.nac_params is not None:
            write_BORN(ph.primitive, ph.nac_params["born"], ph.nac_params["dielectric"])
    return sorted(os.listdir("."))


def child_writer(args):
    spec, path = args
    from phonopy.file_IO import write_BORN, write_FORCE_CONSTANTS, write_FORCE_SETS, write_force_constants_to_hdf5
    from phonopy.structure.dataset import get_displacements_and_forces

    os.chdir(path)
    w = World(spec["world"])
    ph, fc_full = _build(w, spec["obj"])
    out = {"raised": None, "fault_fired": 0, "fc_model_full": np.array(fc_full)}
    sv = spec["save"]
    for ps in spec.get("pre_saves", []):
        ph.save(ps["filename"], settings=ps["settings"], compression=ps["compression"])
    if spec["write_fault"] is not None:
        with simfs.WriteFault(r"^%s" % sv["filename"].replace(".", r"\."), spec["write_fault"]) as wf:
            try:
                out["filename"] = ph.save(sv["filename"], settings=sv["settings"], compression=sv["compression"])
            except OSError as e:
                out["raised"] = "OSError: %s" % e
        out["fault_fired"] = wf.fired
    else:
        out["filename"] = ph.save(sv["filename"], settings=sv["settings"], compression=sv["compression"])
    # ---- acknowledged: from here on the process may be killed at any time (it is, right after returning)
    if ph.force_constants is None and ph.dataset is not None and spec["obj"]["dataset"] == "t1":
        ph2, _ = _build(w, dict(spec["obj"], fc="full"))
        out["snap"] = snap(ph, with_phonons=False)
        out["snap"]["D"] = snap(ph2)["D"]
        out["snap"]["fc_model"] = np.array(ph2.force_constants)
    else:
        out["snap"] = snap(ph)
    # write/parse pairs under non-default names (so that they do not take part in auto-discovery)
    pairs = {}
    if "FORCE_SETS" in spec["pairs"] and spec["obj"]["dataset"] in ("t1", "t2"):
        write_FORCE_SETS(copy.deepcopy(ph.dataset), filename="pair_FORCE_SETS")
        pairs["FORCE_SETS"] = canon_dataset(ph.dataset)
    if "FORCE_CONSTANTS" in spec["pairs"] and ph.force_constants is not None:
        write_FORCE_CONSTANTS(ph.force_constants, filename="pair_FORCE_CONSTANTS", p2s_map=ph.primitive.p2s_map)
        pairs["FORCE_CONSTANTS"] = np.array(ph.force_constants)
    if "hdf5" in spec["pairs"] and ph.force_constants is not None:
        comp = [None, "gzip", "lzf"][spec["seed"] % 3]
        write_force_constants_to_hdf5(ph.force_constants, filename="pair_fc.hdf5", p2s_map=ph.primitive.p2s_map, physical_unit="eV/angstrom^2", compression=comp)
        pairs["hdf5"] = np.array(ph.force_constants)
    if "BORN" in spec["pairs"] and ph.nac_params is not None:
        write_BORN(ph.primitive, ph.nac_params["born"], ph.nac_params["dielectric"], filename="pair_BORN")
        pairs["BORN"] = {"born": np.array(ph.nac_params["born"]), "dielectric": np.array(ph.nac_params["dielectric"])}
    if "convert" in spec["pairs"] and spec["obj"]["dataset"] == "t1":
        d, f = get_displacements_and_forces(ph.dataset)
        pairs["convert"] = {"disp": np.array(d), "forces": None if f is None else np.array(f), "type1": canon_dataset(ph.dataset)}
    out["pairs"] = pairs
    return out


def child_reader(args):
    spec, path, filename, resave = args
    import phonopy
    from phonopy.file_IO import parse_BORN, parse_FORCE_CONSTANTS, parse_FORCE_SETS, read_force_constants_hdf5

    os.chdir(path)
    rd = spec["read"]
    kw = dict(is_compact_fc=rd["is_compact_fc"], symmetrize_fc=rd["symmetrize_fc"], produce_fc=spec["obj"]["dataset"] != "t2",
              is_symmetry=spec["obj"]["is_symmetry"], log_level=0)
    if spec.get("explicit") == "force_constants_filename":
        kw["force_constants_filename"] = "explicit_FORCE_CONSTANTS"
    elif spec.get("explicit") == "force_sets_filename":
        kw["force_sets_filename"] = "explicit_FORCE_SETS"
        kw["produce_fc"] = True
    out = {"stream_reads": 0}
    if rd["mode"] == "stream":
        from phonopy.file_IO import get_io_module_to_decompress

        mod = get_io_module_to_decompress(filename)
        with mod.open(filename, "rt") as f:
            text = f.read()
        stream, raw = simfs.chunked_text_stream(text, rd["chunk"])
        try:
            ph = phonopy.load(stream, **kw)
        except Exception as e:  # noqa: BLE001
            return {"load_raised": "%s: %s" % (type(e).__name__, str(e)[:200]), "stream_reads": raw.reads}
        out["stream_reads"] = raw.reads
    else:
        try:
            ph = phonopy.load(filename, **kw)
        except Exception as e:  # noqa: BLE001
            return {"load_raised": "%s: %s" % (type(e).__name__, str(e)[:200]), "stream_reads": 0}
    out["snap"] = snap(ph)
    if resave:
        sv = spec["save"]
        out["resaved"] = ph.save("gen2.yaml", settings=sv["settings"], compression=sv["compression"])
    pairs = {}
    raised = {}
    natom = len(ph.supercell)

    def attempt(name, fn):
        # a parser that raises on a file phonopy's own writer produced is a finding, not a harness failure
        try:
            fn()
        except BaseException as e:  # noqa: BLE001  (parsers also call sys.exit)
            raised[name] = "%s: %s" % (type(e).__name__, str(e)[:200])

    def p_fs():
        pairs["FORCE_SETS"] = canon_dataset(parse_FORCE_SETS(natom=natom, filename="pair_FORCE_SETS"))
        pairs["FORCE_SETS_text"] = open("pair_FORCE_SETS").read()[:20000]

    def p_fc():
        pairs["FORCE_CONSTANTS"] = np.array(parse_FORCE_CONSTANTS(filename="pair_FORCE_CONSTANTS", p2s_map=ph.primitive.p2s_map))

    def p_h5():
        fc, unit = read_force_constants_hdf5(filename="pair_fc.hdf5", p2s_map=ph.primitive.p2s_map, return_physical_unit=True)
        pairs["hdf5"] = np.array(fc)
        pairs["hdf5_unit"] = unit

    def p_born():
        n = parse_BORN(ph.primitive, filename="pair_BORN")  # write_BORN has no is_symmetry option: the pair is (write_BORN, parse_BORN with defaults)
        pairs["BORN"] = None if n is None else {"born": np.array(n["born"]), "dielectric": np.array(n["dielectric"])}

    for name, fname, fn in (("FORCE_SETS", "pair_FORCE_SETS", p_fs), ("FORCE_CONSTANTS", "pair_FORCE_CONSTANTS", p_fc), ("hdf5", "pair_fc.hdf5", p_h5), ("BORN", "pair_BORN", p_born)):
        if os.path.exists(fname):
            attempt(name, fn)
    out["pairs"] = pairs
    out["pairs_raised"] = raised
    return out


# ------------------------------------------------------------------ comparison
def _tol(dec, key, default=15):
    d = dec.get(key, default)
    return 0.5000001 * 10.0 ** (-d)


def _cmp(name, a, b, tol, bad):
    if a is None and b is None:
        return
    if (a is None) != (b is None):
        bad.append((name, "one side missing"))
        return
    a, b = np.asarray(a), np.asarray(b)
    if a.shape != b.shape:
        bad.append((name, "shape %s vs %s" % (a.shape, b.shape)))
        return
    if a.size and a.dtype.kind in "fc":
        d = float(np.max(np.abs(a - b)))
        if not d <= tol * (1 + 1e-9) + 4e-16 * float(np.max(np.abs(a))):
            bad.append((name, "maxdiff %.3e > printed precision %.1e" % (d, tol)))
    elif a.size and not np.array_equal(a, b):
        bad.append((name, "values differ"))


def compare_snaps(ws, rs, dec, saved, obj, read):
    """ws: writer snapshot, rs: reader snapshot, dec: printed decimals per key, saved: what the settings actually stored."""
    bad = []
    _cmp("unitcell.lattice", ws["lattice"], rs["lattice"], _tol(dec, "lattice"), bad)
    _cmp("unitcell.positions", ws["positions"], rs["positions"], _tol(dec, "coordinates"), bad)
    if ws["symbols"] != rs["symbols"]:
        bad.append(("unitcell.symbols", "%s vs %s" % (ws["symbols"], rs["symbols"])))
    _cmp("unitcell.masses", ws["masses"], rs["masses"], _tol(dec, "mass", 6), bad)
    _cmp("unitcell.magnetic_moments", ws["magmoms"], rs["magmoms"], _tol(dec, "magnetic_moment", 8), bad)
    _cmp("supercell_matrix", ws["supercell_matrix"], rs["supercell_matrix"], 0, bad)
    _cmp("primitive_matrix", ws["primitive_matrix"], rs["primitive_matrix"], _tol(dec, "primitive_matrix"), bad)
    if (ws["calculator"] or None) != (rs["calculator"] or None):
        bad.append(("calculator", "%s vs %s" % (ws["calculator"], rs["calculator"])))
    if abs(ws["factor"] - rs["factor"]) > 1e-6 * abs(ws["factor"]):
        bad.append(("unit_conversion_factor", "%r vs %r" % (ws["factor"], rs["factor"])))
    # dataset
    wd, rdd = ws["dataset"], rs["dataset"]
    if (saved["displacements"] or saved["force_sets"]) and wd is not None:
        if rdd is None:
            bad.append(("dataset", "missing after reload"))
        elif wd["type"] != rdd["type"]:
            bad.append(("dataset.type", "%s vs %s" % (wd["type"], rdd["type"])))
        else:
            if wd["type"] == 1:
                if wd["number"] != rdd["number"] or wd["natom"] != rdd["natom"]:
                    bad.append(("dataset.atoms", "displaced atom indices differ"))
            _cmp("dataset.displacements", wd["displacement"], rdd["displacement"], _tol(dec, "displacement", 16) if wd["type"] == 1 else min(_tol(dec, "displacement", 16), _tol(dec, "displacements", 16)) * 1.0, bad)
            if saved["force_sets"] and "forces" in wd:
                _cmp("dataset.forces", wd["forces"], rdd.get("forces"), max(_tol(dec, "forces", 16), _tol(dec, "force", 16)), bad)
                if "energies" in wd:
                    _cmp("dataset.supercell_energies", wd["energies"], rdd.get("energies"), max(_tol(dec, "supercell_energy", 8), _tol(dec, "supercell_energies", 8)), bad)
            elif saved["force_sets"] and "energies" in wd:
                # energies set before (or without) the forces are part of the dataset too
                _cmp("dataset.supercell_energies(no forces)", wd["energies"], rdd.get("energies"), max(_tol(dec, "supercell_energy", 8), _tol(dec, "supercell_energies", 8)), bad)
    # force constants
    if saved["force_constants"] and ws["fc"] is not None:
        a, b = ws["fc"], rs["fc"]
        if b is None:
            bad.append(("force_constants", "missing after reload"))
        else:
            p2s = ws["p2s_map"]
            if a.shape[0] == a.shape[1] and b.shape[0] != b.shape[1]:
                a = a[p2s]
            elif a.shape[0] != a.shape[1] and b.shape[0] == b.shape[1]:
                b = b[p2s]
            _cmp("force_constants", a, b, _tol(dec, "elements"), bad)
    # NAC
    if ws["nac"] is not None and saved["born_effective_charge"] and saved["dielectric_constant"]:
        if rs["nac"] is None:
            bad.append(("nac_params", "missing after reload"))
        else:
            _cmp("nac.born", ws["nac"]["born"], rs["nac"]["born"], _tol(dec, "born_effective_charge"), bad)
            _cmp("nac.dielectric", ws["nac"]["dielectric"], rs["nac"]["dielectric"], _tol(dec, "dielectric_constant"), bad)
            if ws["nac"]["factor"] is not None:
                if rs["nac"]["factor"] is None or abs(ws["nac"]["factor"] - rs["nac"]["factor"]) > _tol(dec, "unit_conversion_factor", 6):
                    bad.append(("nac.factor", "%r vs %r" % (ws["nac"]["factor"], rs["nac"]["factor"])))
            if (ws["nac"]["method"] or "gonze") != (rs["nac"]["method"] or "gonze"):
                bad.append(("nac.method", "%r vs %r" % (ws["nac"]["method"], rs["nac"]["method"])))
    # phonons: only when the reader has (or can produce) force constants and NAC state is the saved one
    nac_complete = ws["nac"] is None or (saved["born_effective_charge"] and saved["dielectric_constant"])
    fc_available = (saved["force_constants"] and ws["fc"] is not None) or (saved["force_sets"] and wd is not None and wd["type"] == 1 and "forces" in wd)
    if ws["D"] is not None and nac_complete and fc_available:
        if rs["D"] is None:
            bad.append(("phonons", "reader could not produce phonons"))
        else:
            sc = float(np.max(np.abs(ws["D"]))) or 1.0
            d = float(np.max(np.abs(ws["D"] - rs["D"])))
            if d > 1e-6 * sc:
                bad.append(("phonons.D(q)", "maxdiff %.3e scale %.3e" % (d, sc)))
    return bad


def saved_settings(spec, wsnap):
    from phonopy.structure.dataset import forces_in_dataset  # noqa: F401

    st = {"force_sets": True, "displacements": True, "force_constants": False, "born_effective_charge": True, "dielectric_constant": True}
    user = spec["save"]["settings"] or {}
    st.update(user)
    has_forces = wsnap["dataset"] is not None and "forces" in wsnap["dataset"]
    if user.get("force_constants") is False:
        pass
    elif not has_forces and wsnap["fc"] is not None:
        st["force_constants"] = True
    return st


# ------------------------------------------------------------------ one run
def execute(spec):
    violations = []
    faults = {}
    probes = {}
    log = []

    def V(cls, site, **detail):
        violations.append({"class": cls, "site": site, "detail": detail})

    def sub(fn, arg):
        o = core.call_isolated(fn, arg, timeout=600.0)
        if o.kind != "ok":
            raise RuntimeError("sub-process %s: %s %s" % (fn.__name__, o.kind, str(o.detail)[-1500:]))
        return o.value

    with simfs.RunDir("c16-") as rd:
        path = rd.path
        if spec["stale"] and spec["stale_when"] == "before":
            sub(child_stale, (spec, path))
        wout = sub(child_writer, (spec, path))
        if spec["write_fault"] is not None:
            faults["write_error_injected" if wout["fault_fired"] else "write_error_armed_not_reached"] = 1
        if wout["raised"]:
            probes["save_raised_under_write_error"] = 1
            log.append(("save raised", wout["raised"][:40]))
            # (d) a raising save() promises nothing
            return _result(spec, violations, faults, probes, log, nontrivial=bool(wout["fault_fired"]))
        ws = wout["snap"]
        fn = wout["filename"]
        if not os.path.exists(os.path.join(path, fn)):
            V("acknowledged-write-missing", "save", filename=fn)
            return _result(spec, violations, faults, probes, log, nontrivial=True)
        faults["writer_killed_after_ack"] = 1
        # printed precision is read off the file W wrote
        if fn.endswith(".xz"):
            text = lzma.open(os.path.join(path, fn), "rt").read()
            faults["compressed_file"] = 1
        else:
            text = open(os.path.join(path, fn)).read()
        dec = simfs.printed_decimals(text)
        if spec["recompress"] and not fn.endswith(".xz"):
            ext = spec["recompress"]
            mod = {"gz": gzip, "bz2": bz2, "lzma": lzma, "xz": lzma}[ext]
            new = fn + "." + ext
            with mod.open(os.path.join(path, new), "wt") as f:
                f.write(text)
            os.remove(os.path.join(path, fn))
            fn = new
            faults["recompressed_as_" + ext] = 1
        saved = saved_settings(spec, ws)
        # stale files: keep only those that the documented priority list ranks below what the saved file contains
        stale = list(spec["stale"])
        # (the dumper writes displacements together with forces when force_sets is on, whatever 'displacements' says)
        has_forces_saved = saved["force_sets"] and ws["dataset"] is not None and "forces" in ws["dataset"]
        has_fc_saved = saved["force_constants"] and ws["fc"] is not None
        has_nac_saved = ws["nac"] is not None and saved["born_effective_charge"] and saved["dielectric_constant"]
        allowed = []
        for name in stale:
            if name == "BORN" and has_nac_saved:
                allowed.append(name)
            elif name in ("FORCE_CONSTANTS", "force_constants.hdf5") and (has_fc_saved or has_forces_saved):
                allowed.append(name)
            elif name == "FORCE_SETS" and has_forces_saved:
                allowed.append(name)
        if spec["stale"]:
            if spec["stale_when"] == "after":
                sub(child_stale, (dict(spec, stale=allowed), path))
            else:
                for name in stale:
                    if name not in allowed and os.path.exists(os.path.join(path, name)):
                        os.remove(os.path.join(path, name))
            for name in allowed:
                if os.path.exists(os.path.join(path, name)):
                    faults["stale_file:" + name] = 1
        fb_expect = None
        if spec.get("fallback") and not has_fc_saved and not has_forces_saved and not allowed and spec["obj"]["dataset"] != "t2_noforce":
            FB = {"FORCE_CONSTANTS": 0.5, "force_constants.hdf5": 0.6, "FORCE_SETS": 0.7}
            for name in ("FORCE_SETS", "FORCE_CONSTANTS", "force_constants.hdf5", "BORN"):
                if os.path.exists(os.path.join(path, name)):
                    os.remove(os.path.join(path, name))
            label = "force_constants.hdf5" in spec["fallback"] and "FORCE_CONSTANTS" not in spec["fallback"] and spec["seed"] % 2 == 0
            sub(child_stale, (dict(spec, stale=spec["fallback"], stale_scales=FB, hdf5_label=label), path))
            for name in ("FORCE_CONSTANTS", "force_constants.hdf5", "FORCE_SETS"):
                if name in spec["fallback"]:
                    fb_expect = (name, FB[name])
                    break
            if label:
                from . import peers

                calc_ = spec["obj"]["calculator"] or "vasp"
                fb_expect = ("force_constants.hdf5", FB["force_constants.hdf5"] * peers.LABEL_VALUE["eV/angstrom^2"] / peers.fc_unit(calc_))
                faults["fallback_hdf5_labelled_in_another_unit"] = 1
            faults["fallback_discovery:" + "+".join(spec["fallback"])] = 1
        explicit = spec.get("explicit") if fb_expect is None else None
        if explicit:
            with simfs.RunDir("c16x-") as alt:
                name_ = "FORCE_CONSTANTS" if explicit == "force_constants_filename" else "FORCE_SETS"
                sub(child_stale, (dict(spec, stale=[name_], stale_scales={name_: 0.8}), alt.path))
                shutil.copy(os.path.join(alt.path, name_), os.path.join(path, "explicit_" + name_))
            faults["explicit_file_argument:" + explicit] = 1
            # force_sets_filename decides the force constants only if neither call argument nor yaml supplies force constants... the
            # documented order puts force_constants_filename (1) and force_sets_filename (2) before anything in the yaml (3, 4)
            fb_expect = ("explicit:" + explicit, 0.8)
        rout = sub(child_reader, (dict(spec, explicit=explicit), path, fn, spec["generations"] == 2 and fb_expect is None))
        if "load_raised" in rout:
            # a file written by save() (plus files the documented discovery list allows) must load
            V("reload-differs", "load-raises:" + rout["load_raised"].split(":")[0], detail=rout["load_raised"], filename=fn, saved=saved, stale=sorted(allowed))
            return _result(spec, violations, faults, probes, log, nontrivial=True)
        if spec["read"]["mode"] == "stream":
            faults["short_read_stream"] = 1
            probes["stream_read_calls"] = rout["stream_reads"]
        rs = rout["snap"]
        if fb_expect is not None:
            name, scale = fb_expect
            want = wout["fc_model_full"] * scale
            got = rs["fc"]
            if got is None:
                V("discovery-order", "%s:no-force-constants" % (name if name.startswith("explicit:") else "fallback:" + name), present=spec["fallback"])
            else:
                if got.shape[0] != got.shape[1]:
                    want = want[ws["p2s_map"]]
                dd = float(np.max(np.abs(got - want)))
                # force constants rebuilt from a FORCE_SETS file carry its print quantum (10 decimals of the forces / 0.03 A)
                # (a labelled hdf5 goes through a unit conversion: phonopy's constants differ from the simulator's CODATA-2018 ones at 1e-8..1e-7)
                rel_tol = 1e-6 if name in ("FORCE_SETS", "explicit:force_sets_filename") or faults.get("fallback_hdf5_labelled_in_another_unit") else 1e-7
                if dd > rel_tol * max(1.0, float(np.max(np.abs(want)))):
                    V("discovery-order", ("%s-ignored" % name if name.startswith("explicit:") else "fallback:expected-%s" % name), maxdiff=dd, present=spec["fallback"], doc="FORCE_CONSTANTS (5) > force_constants.hdf5 (6) > FORCE_SETS (7)")
            ws = dict(ws, D=None, dataset=None)  # phonons / forces now come from the discovered files, not from W's state
            if name.startswith("explicit:"):
                ws = dict(ws, fc=rs["fc"])  # judged above against the explicit file
        stale_present = sorted(n for n in allowed if os.path.exists(os.path.join(path, n)))
        for name, why in compare_snaps(ws, rs, dec, saved, spec["obj"], spec["read"]):
            site = name + ("|stale-files-present" if stale_present else "")
            V("reload-differs", site, why=why, stale=stale_present, saved=saved, filename=fn, dataset=spec["obj"]["dataset"], fc=spec["obj"]["fc"])
        log.append(("R", core.digest({k: rs[k] for k in ("lattice", "positions", "masses", "supercell_matrix")})))
        # second generation
        if spec["generations"] == 2 and rout.get("resaved"):
            faults["second_generation"] = 1
            r2 = sub(child_reader, (dict(spec, read=dict(spec["read"], mode="filename")), path, rout["resaved"], False))
            if "load_raised" in r2:
                V("reload-differs", "gen2:load-raises:" + r2["load_raised"].split(":")[0], detail=r2["load_raised"], saved=saved)
                r2 = {"snap": None}
            for name, why in (compare_snaps(ws, r2["snap"], dec, saved, spec["obj"], spec["read"]) if r2["snap"] is not None else []):
                V("reload-differs", "gen2:" + name + ("|stale-files-present" if stale_present else ""), why=why, stale=stale_present, saved=saved)
        # (e) write/parse pairs
        wp, rp = wout["pairs"], rout["pairs"]
        for name, why in sorted(rout.get("pairs_raised", {}).items()):
            V("file-pair-differs", "%s:parser-raises:%s" % (name, why.split(":")[0]), why=why)
            wp = {k: v for k, v in wp.items() if k != name}
        if "FORCE_SETS" in wp:
            a, b = wp["FORCE_SETS"], rp.get("FORCE_SETS")
            fdec = 10 if a["type"] == 1 else 8
            bad = []
            if b is None or a["type"] != b["type"]:
                bad.append(("type", "dataset type changed"))
            else:
                if a["type"] == 1 and (a["number"] != b["number"]):
                    bad.append(("atoms", "displaced atoms differ"))
                _cmp("displacements", a["displacement"], b["displacement"], 0.5000001 * 10 ** (-(16 if a["type"] == 1 else 8)), bad)
                _cmp("forces", a["forces"], b.get("forces"), 0.5000001 * 10 ** (-fdec), bad)
            for name, why in bad:
                V("file-pair-differs", "FORCE_SETS(type%d):%s" % (a["type"], name), why=why)
            probes["pair:FORCE_SETS"] = 1
        for key in ("FORCE_CONSTANTS", "hdf5"):
            if key in wp:
                bad = []
                _cmp("fc", wp[key], rp.get(key), 0.5000001e-15 if key == "FORCE_CONSTANTS" else 0.0, bad)
                for name, why in bad:
                    V("file-pair-differs", "%s:%s" % (key, name), why=why)
                probes["pair:" + key] = 1
        if "hdf5" in wp and rp.get("hdf5_unit") != "eV/angstrom^2":
            V("file-pair-differs", "hdf5:physical_unit", got=rp.get("hdf5_unit"))
        if "BORN" in wp:
            bad = []
            b = rp.get("BORN")
            if b is None:
                bad.append(("parse", "parser returned None"))
            else:
                _cmp("born", wp["BORN"]["born"], b["born"], 0.5000001e-8 * 4, bad)  # parser symmetrises: a few printed ulps
                _cmp("dielectric", wp["BORN"]["dielectric"], b["dielectric"], 0.5000001e-8 * 4, bad)
            for name, why in bad:
                V("file-pair-differs", "BORN:" + name, why=why)
            probes["pair:BORN"] = 1
        if "convert" in wp:
            c = wp["convert"]
            t1 = c["type1"]
            bad = []
            disp = np.zeros_like(c["disp"])
            for i, (num, d) in enumerate(zip(t1["number"], t1["displacement"])):
                disp[i, num] = d
            _cmp("disp", c["disp"], disp, 0.0, bad)
            if "forces" in t1:
                _cmp("forces", c["forces"], t1["forces"], 0.0, bad)
            for name, why in bad:
                V("file-pair-differs", "type1->type2:" + name, why=why)
            probes["pair:type1->type2"] = 1
    nontrivial = any(k for k in faults if k not in ("writer_killed_after_ack",))
    return _result(spec, violations, faults, probes, log, nontrivial)


def _result(spec, violations, faults, probes, log, nontrivial):
    o = spec["obj"]
    if spec.get("pre_saves"):
        faults = dict(faults, earlier_saves_in_same_process=len(spec["pre_saves"]))
    sig = core.digest([o, spec["save"], spec.get("pre_saves"), spec.get("fallback"), spec["stale"], spec["stale_when"], spec["write_fault"] is not None, spec["recompress"], spec["read"], spec["generations"], spec["world"]["crystal"], spec["world"]["nac"]])
    probes["dataset:%s" % o["dataset"]] = 1
    probes["fc:%s" % o["fc"]] = 1
    if o["ext_symbols"]:
        probes["extended_symbols"] = 1
    if CRYSTALS[spec["world"]["crystal"]].get("magmoms"):
        probes["magnetic_moments"] = 1
    return {
        "digest": core.digest([log, sorted((v["class"], v["site"]) for v in violations)]),
        "violations": violations, "sig": sig, "nontrivial": bool(nontrivial), "faults": faults, "probes": probes,
        "steps": {"process_restarts": 2 + (1 if spec["stale"] else 0) + (1 if spec["generations"] == 2 else 0), "protocol_runs": 1},
        "sample": {"seed": spec["seed"], "crystal": spec["world"]["crystal"], "obj": o, "save": spec["save"], "stale": spec["stale"], "stale_when": spec["stale_when"],
                   "write_fault": spec["write_fault"], "read": spec["read"], "recompress": spec["recompress"], "generations": spec["generations"], "pairs": spec["pairs"]},
    }


def shrink_candidates(spec):
    if spec.get("fallback"):
        yield dict(spec, fallback=[])
    if spec.get("pre_saves"):
        yield dict(spec, pre_saves=[])
        if len(spec["pre_saves"]) > 1:
            for ps in spec["pre_saves"]:
                yield dict(spec, pre_saves=[ps])
    if spec["stale"] and len(spec["stale"]) > 1:
        for n in spec["stale"]:
            yield dict(spec, stale=[n])
    if spec["pairs"]:
        yield dict(spec, pairs=[])
        for p in spec["pairs"]:
            yield dict(spec, pairs=[p])
    if spec["generations"] == 2:
        yield dict(spec, generations=1)
    if spec["recompress"]:
        yield dict(spec, recompress=None)
    if spec["read"]["mode"] == "stream":
        yield dict(spec, read=dict(spec["read"], mode="filename"))
    if spec["write_fault"] is not None:
        yield dict(spec, write_fault=None)
    if spec["save"]["compression"]:
        yield dict(spec, save=dict(spec["save"], compression=False))
    if spec["save"]["settings"]:
        yield dict(spec, save=dict(spec["save"], settings=None))
    o = spec["obj"]
    for k, v in (("ext_symbols", False), ("custom_masses", False), ("energies", False), ("calculator", None)):
        if o.get(k):
            yield dict(spec, obj=dict(o, **{k: v}))
    if spec["stale"]:
        yield dict(spec, stale=[])

"""Simulated durable directory and I/O fault seams.

A run owns one directory under $TMPDIR that is created empty, populated only by
the simulator and the code under test, and removed when the run ends.  Process
"restart" = a forked child that shares nothing with the previous step but this
directory.  Faults: stale files of an unrelated calculation under the
auto-discovered names, an I/O error on the k-th byte written through
builtins.open, chunk-limited (short-read) streams.
"""

from __future__ import annotations

import builtins
import io
import os
import re
import shutil
import tempfile


class RunDir:
    def __init__(self, prefix="sim-"):
        self.path = tempfile.mkdtemp(prefix=prefix, dir=os.environ.get("TMPDIR", "/tmp"))

    def __enter__(self):
        return self

    def __exit__(self, *a):
        shutil.rmtree(self.path, ignore_errors=True)

    def listing(self):
        out = []
        for root, _, files in os.walk(self.path):
            for f in sorted(files):
                out.append(os.path.relpath(os.path.join(root, f), self.path))
        return sorted(out)


class _FaultyFile:
    """File object proxy that raises OSError(ENOSPC) once `budget` bytes/chars have been written."""

    def __init__(self, f, budget):
        self._f = f
        self._budget = budget

    def write(self, data):
        n = len(data)
        if n > self._budget[0]:
            part = data[: self._budget[0]]
            if part:
                self._f.write(part)
            self._budget[0] = 0
            self._f.flush()
            raise OSError(28, "No space left on device (injected)")
        self._budget[0] -= n
        return self._f.write(data)

    def __getattr__(self, k):
        return getattr(self._f, k)

    def __enter__(self):
        self._f.__enter__()
        return self

    def __exit__(self, *a):
        return self._f.__exit__(*a)

    def __iter__(self):
        return iter(self._f)


class WriteFault:
    """Context manager: writes through builtins.open to files whose basename matches `pattern` fail after `nbytes`."""

    def __init__(self, pattern, nbytes):
        self.pattern = re.compile(pattern)
        self.budget = [int(nbytes)]
        self.fired = 0
        self._orig = None

    def __enter__(self):
        self._orig = builtins.open
        orig = self._orig
        me = self

        def faulty_open(file, mode="r", *a, **kw):
            f = orig(file, mode, *a, **kw)
            try:
                name = os.path.basename(os.fspath(file)) if not isinstance(file, int) else ""
            except TypeError:
                name = ""
            if any(c in mode for c in "wax+") and me.pattern.search(name):
                return _FaultyFile(f, me.budget)
            return f

        builtins.open = faulty_open
        return self

    def __exit__(self, *a):
        builtins.open = self._orig
        self.fired = 1 if self.budget[0] == 0 else 0


class ChunkedStream(io.RawIOBase):
    """Binary stream that never returns more than `chunk` bytes per read (legal short reads)."""

    def __init__(self, data: bytes, chunk: int):
        self._b = io.BytesIO(data)
        self._chunk = max(1, int(chunk))
        self.reads = 0

    def readable(self):
        return True

    def readinto(self, b):
        self.reads += 1
        n = min(len(b), self._chunk)
        data = self._b.read(n)
        b[: len(data)] = data
        return len(data)


def chunked_text_stream(text: str, chunk: int):
    raw = ChunkedStream(text.encode(), chunk)
    return io.TextIOWrapper(io.BufferedReader(raw, buffer_size=max(1, chunk)), encoding="utf-8"), raw


_NUM = re.compile(r"[-+]?\d+\.(\d+)(?:[eE][-+]?\d+)?")
_KEY = re.compile(r"^\s*(?:-\s+)?([A-Za-z_][A-Za-z_0-9]*):")


def printed_decimals(text: str) -> dict:
    """{context key: minimum number of decimals of the numbers printed under it} read off a yaml-like text."""
    out = {}
    cur = None
    for line in text.splitlines():
        body = line.split("#", 1)[0]
        m = _KEY.match(body)
        if m:
            cur = m.group(1)
        for n in _NUM.finditer(body):
            if "e" in n.group(0).lower():
                continue
            d = len(n.group(1))
            if cur is not None:
                out[cur] = min(out.get(cur, 99), d)
    return out

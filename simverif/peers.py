"""Fake calculator jobs (in-process, deterministic) and the simulator's own unit table.

A peer reads the structure file phonopy wrote *with phonopy's own reader for
that calculator*, computes exactly harmonic forces from the world's model for
the positions it actually read (in the frame and atom order of that file), and
writes an output file in the calculator's output format and native units.
The unit constants here are the simulator's own (CODATA 2018), deliberately not
imported from phonopy.units.
"""

from __future__ import annotations

import os
import re

import numpy as np

# ---- the simulator's own constants (CODATA 2018)
BOHR = 0.529177210903  # angstrom
HARTREE = 27.211386245988  # eV
RYDBERG = HARTREE / 2
EV = 1.602176634e-19  # J
AMU = 1.66053906660e-27  # kg
VASP_TO_THZ = np.sqrt(EV / AMU) / 1e-10 / (2 * np.pi) / 1e12  # sqrt(eV/A^2/amu)/2pi in THz
E2_OVER_4PIEPS0 = HARTREE * BOHR  # eV*angstrom

# calculator -> (length unit in angstrom, internal force unit in eV/angstrom): the documented unit systems
# (docstring table of get_default_physical_units / doc/interfaces.md)
UNITS = {
    "vasp": (1.0, 1.0), "wien2k": (BOHR, 1e-3 * RYDBERG / BOHR), "abinit": (BOHR, 1.0), "elk": (BOHR, HARTREE / BOHR),
    "qe": (BOHR, RYDBERG / BOHR), "siesta": (BOHR, 1.0), "crystal": (1.0, 1.0), "dftbp": (BOHR, HARTREE / BOHR),
    "turbomole": (BOHR, HARTREE / BOHR), "cp2k": (1.0, HARTREE / BOHR), "aims": (1.0, 1.0), "castep": (1.0, 1.0),
    "fleur": (BOHR, HARTREE / BOHR), "abacus": (BOHR, 1.0), "lammps": (1.0, 1.0), "pwmat": (1.0, 1.0),
}
ALL_CALCULATORS = sorted(UNITS)

# force unit of the numbers printed in the calculator's own output file (eV/angstrom per printed unit) and sign
OUTPUT_FORCE_UNIT = {
    "vasp": 1.0, "abinit": 1.0, "qe": RYDBERG / BOHR, "elk": HARTREE / BOHR, "siesta": 1.0, "dftbp": HARTREE / BOHR,
    "castep": 1.0, "pwmat": 1.0, "crystal": HARTREE / BOHR, "turbomole": HARTREE / BOHR,
    "aims": 1.0, "abacus": 1.0, "lammps": 1.0, "cp2k": HARTREE / BOHR, "fleur": HARTREE / BOHR,
}
PEER_CALCULATORS = sorted(OUTPUT_FORCE_UNIT)
CARRIES_POSITIONS = {"vasp"}
# interfaces whose writer/reader pair can be exercised offline (cp2k needs cp2k-input-tools; crystal's reader parses
# CRYSTAL *output*, not the input its writer produces).  wien2k: structure files only (P lattice, every atom its own
# site); its symmetry-reduced force format has no peer.
# structure formats whose writer and reader both carry (collinear) magnetic moments per atom
MAGMOMS_IN_STRUCTURE_FILE = ["abacus", "aims", "castep"]  # pwmat: the writer prints a "magnetic" section, the reader does not read it (moments come from the MAGMOM tag)
# calculators whose force-output reader is exercised without their structure files: the peer takes the displaced positions from
# phonopy's own objects (cp2k: structure reader needs cp2k-input-tools; crystal: reader parses CRYSTAL output, not the written input;
# fleur: written files cannot be read back, a recorded finding - the reader of its FORCES file is still exercised)
FORCES_ONLY = ["cp2k", "crystal", "fleur"]
STRUCTURE_ROUNDTRIP = ["vasp", "abinit", "qe", "elk", "siesta", "dftbp", "turbomole", "aims", "castep", "abacus", "lammps", "pwmat", "fleur", "wien2k"]


# documented force-constant unit label per calculator and the value of each label in eV/angstrom^2 (simulator's own table)
FC_LABEL = {"vasp": "eV/angstrom^2", "wien2k": "mRy/au^2", "abinit": "eV/angstrom.au", "elk": "hartree/au^2", "qe": "Ry/au^2", "siesta": "eV/angstrom.au",
            "crystal": "eV/angstrom^2", "dftbp": "hartree/au^2", "turbomole": "hartree/au^2", "cp2k": "hartree/angstrom.au", "aims": "eV/angstrom^2",
            "castep": "eV/angstrom^2", "fleur": "hartree/au^2", "abacus": "eV/angstrom.au", "lammps": "eV/angstrom^2", "pwmat": "eV/angstrom^2"}
LABEL_VALUE = {"eV/angstrom^2": 1.0, "eV/angstrom.au": 1.0 / BOHR, "Ry/au^2": RYDBERG / BOHR**2, "mRy/au^2": 1e-3 * RYDBERG / BOHR**2,
               "hartree/au^2": HARTREE / BOHR**2, "hartree/angstrom.au": HARTREE / BOHR}


def fc_unit(calc):
    """eV/angstrom^2 per one unit of the calculator's force-constant unit."""
    L, F = UNITS[calc]
    return F / L


def structure_info(calc, symbols):
    """optional_structure_info a user would have for this calculator (what read_crystal_structure returns besides the cell)."""
    from phonopy.structure.atoms import symbol_map

    species = []
    for s in symbols:
        if s not in species:
            species.append(s)
    if calc == "qe":
        return ("x", {s: "%s.UPF" % s for s in species})
    if calc == "elk":
        return ("x", ["%s.in" % s for s in species])
    if calc == "siesta":
        return ("x", {s: i + 1 for i, s in enumerate(species)})
    if calc == "abacus":
        return ("x", {s: "%s.upf" % s for s in species}, {s: "%s.orb" % s for s in species}, None)
    if calc == "crystal":
        return ("x", [symbol_map[s] for s in symbols])
    if calc == "fleur":
        return ("x", ["%d" % symbol_map[s] for s in symbols], ["fleur input authored by the simulator"])
    if calc == "wien2k":
        n = len(symbols)
        return ("x", [781] * n, [0.0001] * n, [2.0] * n)
    return ("x",)


QE_HEADER = "&control\n calculation = 'scf'\n/\n&system\n ibrav = 0\n nat = %d\n ntyp = %d\n ecutwfc = 30\n/\n&electrons\n/\n"


def write_structure(calc, filename, cell, info, author=False):
    from phonopy.interface.calculator import write_crystal_structure

    if calc == "turbomole":
        os.makedirs(filename, exist_ok=True)
    if calc == "fleur" and author:
        # the user's own inpgen file, in the commented layout of the Fleur example shipped with phonopy (example/Al-Fleur)
        lines = ["fleur input authored by the simulator", ""]
        for v, tag in zip(np.array(cell.cell), ("a1", "a2", "a3")):
            lines.append("%22.16f %22.16f %22.16f   ! %s" % (v[0], v[1], v[2], tag))
        lines += ["1.0                ! aa", "1.0 1.0 1.0        ! scale", "", "%d ! num atoms" % len(cell)]
        for sp, p in zip(info[1], np.array(cell.scaled_positions)):
            lines.append("%s %20.16f %20.16f %20.16f" % (sp, p[0], p[1], p[2]))
        lines += ["", "&end /"]
        with open(filename, "w") as f:
            f.write("\n".join(lines) + "\n")
        return
    if calc == "elk" and author:
        # the user's own elk.in: lattice vectors given with the `scale` block of the format (phonopy's writer never
        # writes them, its reader must honour them), species blocks in the user's order of first appearance
        syms = [re.sub(r"\d+$", "", str(x)) for x in cell.symbols]
        species = list(dict.fromkeys(syms))
        # (only the global `scale`: how `scale` combines with `scale1..3` is Elk's business and cannot be checked offline)
        sc_all = 1.25
        lat = np.array(cell.cell, dtype=float) / sc_all
        lines = ["scale", " %.16f" % sc_all, "", "avec"]
        lines += [" %21.16f %21.16f %21.16f" % tuple(v) for v in lat]
        lines += ["", "atoms", " %d" % len(species)]
        pos = np.array(cell.scaled_positions)
        for sp in species:
            idx = [i for i, x in enumerate(syms) if x == sp]
            lines += [" '%s.in'" % sp, " %d" % len(idx)]
            lines += [" %20.16f %20.16f %20.16f  0.0 0.0 0.0" % tuple(pos[i]) for i in idx]
        with open(filename, "w") as f:
            f.write("\n".join(lines) + "\n")
        return
    if calc == "vasp" and author:
        # the user's own POSCAR keeps the user's atom order (VASP 5 accepts a species more than once); phonopy's writer would
        # group the atoms by species, which is exactly what must not be assumed of user input
        syms = [str(x) for x in cell.symbols]
        runs = []
        for x in syms:
            if runs and runs[-1][0] == x:
                runs[-1][1] += 1
            else:
                runs.append([x, 1])
        lines = ["authored by the simulator", "   1.0"]
        lines += ["  %22.16f %22.16f %22.16f" % tuple(v) for v in np.array(cell.cell)]
        lines += [" ".join(r[0] for r in runs), " ".join(str(r[1]) for r in runs), "Direct"]
        lines += ["  %20.16f %20.16f %20.16f" % tuple(p) for p in np.array(cell.scaled_positions)]
        with open(filename, "w") as f:
            f.write("\n".join(lines) + "\n")
        return
    write_crystal_structure(filename, cell, interface_mode=calc, optional_structure_info=info)
    fix_structure_file(calc, filename, cell)


def fix_structure_file(calc, filename, cell=None, natom=None, ntyp=None, species=None):
    """What a user has to add to phonopy's partial input before the calculator (or phonopy's reader) accepts it."""
    if calc == "siesta":
        from phonopy.structure.atoms import symbol_map

        text = open(filename).read()
        if "chemicalspecieslabel" not in text.lower():
            if species is None:
                species = []
                for s in cell.symbols:
                    if s not in species:
                        species.append(s)
            head = "NumberOfSpecies %d\n%%block ChemicalSpeciesLabel\n" % len(species)
            for i, s in enumerate(species):
                head += " %d %d %s\n" % (i + 1, symbol_map[s], s)
            head += "%endblock ChemicalSpeciesLabel\n\n"
            with open(filename, "w") as f:
                f.write(head + text)
    if calc == "qe":
        text = open(filename).read()
        if "&system" not in text.lower():
            if natom is None:
                natom = len(cell)
                ntyp = len(set(cell.symbols))
            with open(filename, "w") as f:
                f.write(QE_HEADER % (natom, ntyp) + text)


def read_structure(calc, filename):
    from phonopy.interface.calculator import read_crystal_structure

    if calc == "turbomole" and os.path.isdir(filename):
        # TURBOMOLE's control file refers to `coord` relative to the job directory: the job runs inside it
        cwd = os.getcwd()
        os.chdir(filename)
        try:
            return read_crystal_structure("control", interface_mode=calc)
        finally:
            os.chdir(cwd)
    return read_crystal_structure(filename, interface_mode=calc)


# ------------------------------------------------------------------ force outputs
def harmonic_forces_for_file(read_cell, ideal_cell_model, fc_model, length_unit):
    """Forces (eV/angstrom, in the frame and atom order of the file) for the structure a peer read.

    read_cell: PhonopyAtoms as returned by phonopy's reader (calculator length unit, possibly rotated frame)
    ideal_cell_model: the model's ideal supercell (angstrom), fc_model in eV/angstrom^2 in that atom order.
    """
    Lm = np.array(ideal_cell_model.cell)
    fm = np.array(ideal_cell_model.scaled_positions)
    sm = [s.rstrip("0123456789") for s in ideal_cell_model.symbols]
    fr = np.array(read_cell.scaled_positions)
    sr = [s.rstrip("0123456789") for s in read_cell.symbols]
    n = len(sm)
    if len(sr) != n:
        raise ValueError("peer: atom count of the structure file (%d) differs from the model (%d)" % (len(sr), n))
    # match every atom of the file to the nearest ideal site of the same species
    perm = np.zeros(n, dtype=int)
    u = np.zeros((n, 3))
    used = set()
    for k in range(n):
        d = fr[k][None, :] - fm
        d -= np.rint(d)
        dist = np.linalg.norm(d @ Lm, axis=1)
        for j in np.argsort(dist):
            if sm[j] == sr[k] and j not in used:
                if dist[j] > 0.5:
                    raise ValueError("peer: atom %d of the structure file is %.3f A away from every free %s site" % (k, dist[j], sr[k]))
                perm[k] = j
                used.add(j)
                u[j] = d[j] @ Lm
                break
        else:
            raise ValueError("peer: no site of species %s left for atom %d" % (sr[k], k))
    Fm = -np.einsum("ijab,jb->ia", fc_model, u)
    # frame of the file: L_file(angstrom) = L_model @ R^T
    Lf = np.array(read_cell.cell) * length_unit
    Rt = np.linalg.solve(Lm, Lf)
    return (Fm @ Rt)[perm], perm


# every interface except VASP subtracts the mean force ("drift") of an output before writing FORCE_SETS
SUBTRACTS_DRIFT = sorted(set(UNITS) - {"vasp"})


def write_force_output(calc, filename, read_cell, forces_eVA, energy=-10.0, later_steps=None, drift=None, earlier_blocks=None):
    """Write a calculator output file carrying `forces_eVA` (file atom order) in the calculator's format and native unit.
    drift: constant force (eV/angstrom) added to every atom, as the residual net force of a real calculation."""
    F = np.array(forces_eVA, dtype=float)
    if drift is not None and calc in SUBTRACTS_DRIFT:
        F = F + np.asarray(drift, dtype=float)[None, :]
    F = F / OUTPUT_FORCE_UNIT[calc]
    n = len(F)
    if calc == "vasp":
        with open(filename, "w") as w:
            w.write('<?xml version="1.0" encoding="ISO-8859-1"?>\n<modeling>\n <generator>\n  <i name="program" type="string">vasp </i>\n  <i name="version" type="string">6.3.0  </i>\n </generator>\n <structure name="initialpos" >\n  <crystal>\n   <varray name="basis" >\n')
            for v in read_cell.cell:
                w.write("    <v> %18.12f %18.12f %18.12f </v>\n" % tuple(v))
            w.write('   </varray>\n  </crystal>\n  <varray name="positions" >\n')
            for v in read_cell.scaled_positions:
                w.write("   <v> %18.14f %18.14f %18.14f </v>\n" % tuple(v))
            w.write('  </varray>\n </structure>\n <calculation>\n  <scstep>\n   <energy>\n    <i name="e_fr_energy"> %.8f </i>\n   </energy>\n  </scstep>\n' % energy)
            w.write('  <structure>\n   <crystal>\n    <varray name="basis" >\n')
            for v in read_cell.cell:
                w.write("     <v> %18.12f %18.12f %18.12f </v>\n" % tuple(v))
            w.write('    </varray>\n   </crystal>\n   <varray name="positions" >\n')
            for v in read_cell.scaled_positions:
                w.write("    <v> %18.14f %18.14f %18.14f </v>\n" % tuple(v))
            w.write('   </varray>\n  </structure>\n  <varray name="forces" >\n')
            for v in F:
                w.write("   <v> %18.12f %18.12f %18.12f </v>\n" % tuple(v))
            w.write('  </varray>\n  <energy>\n   <i name="e_fr_energy"> %.8f </i>\n   <i name="e_wo_entrp"> %.8f </i>\n   <i name="e_0_energy"> %.8f </i>\n  </energy>\n </calculation>\n' % (energy, energy, energy))
            # further ionic steps (a relaxation run): each with its own positions and forces
            for pos2, F2 in (later_steps or []):
                w.write(' <calculation>\n  <scstep>\n   <energy>\n    <i name="e_fr_energy"> %.8f </i>\n   </energy>\n  </scstep>\n  <structure>\n   <crystal>\n    <varray name="basis" >\n' % energy)
                for v in read_cell.cell:
                    w.write("     <v> %18.12f %18.12f %18.12f </v>\n" % tuple(v))
                w.write('    </varray>\n   </crystal>\n   <varray name="positions" >\n')
                for v in pos2:
                    w.write("    <v> %18.14f %18.14f %18.14f </v>\n" % tuple(v))
                w.write('   </varray>\n  </structure>\n  <varray name="forces" >\n')
                for v in np.array(F2) / OUTPUT_FORCE_UNIT[calc]:
                    w.write("   <v> %18.12f %18.12f %18.12f </v>\n" % tuple(v))
                w.write('  </varray>\n  <energy>\n   <i name="e_fr_energy"> %.8f </i>\n   <i name="e_wo_entrp"> %.8f </i>\n   <i name="e_0_energy"> %.8f </i>\n  </energy>\n </calculation>\n' % (energy, energy, energy))
            w.write("</modeling>\n")
        return
    if calc == "turbomole":
        os.makedirs(filename, exist_ok=True)
        with open(os.path.join(filename, "gradient"), "w") as w:
            w.write("$grad          cartesian gradients\n  cycle =      1    SCF energy =     %.10f   |dE/dxyz| =  0.000007\n" % energy)
            for p, s in zip(read_cell.positions, read_cell.symbols):
                w.write("  %20.14f  %20.14f  %20.14f  %s\n" % (p[0], p[1], p[2], s.lower()))
            for v in -F:
                w.write(("  %22.14E  %22.14E  %22.14E\n" % tuple(v)).replace("E", "D"))
            w.write("$end\n")
        return
    lines = []
    if calc == "abinit":
        lines.append(" cartesian forces (eV/Angstrom) at end:")
        lines += ["  %4d  %22.14f  %22.14f  %22.14f" % ((i + 1,) + tuple(v)) for i, v in enumerate(F)]
        lines.append(" frms,max,avg= 0 0 0")
    elif calc == "qe":
        lines.append("     Forces acting on atoms (cartesian axes, Ry/au):")
        lines.append("")
        lines += ["     atom %4d type  1   force = %18.12f %18.12f %18.12f" % ((i + 1,) + tuple(v)) for i, v in enumerate(F)]
        lines.append("")
        lines.append("     Total force =     0.000000     Total SCF correction =     0.000000")
    elif calc == "elk":
        lines.append("Forces :")
        for i, v in enumerate(F):
            lines.append(" species :    1, atom :  %3d" % (i + 1))
            lines.append(" Hellmann-Feynman    :  %18.12f %18.12f %18.12f" % tuple(v * 0))
            lines.append(" total force         :  %18.12f %18.12f %18.12f" % tuple(v))
    elif calc == "siesta":
        lines.append("  %d" % n)
        lines += ["  %4d  %22.14f  %22.14f  %22.14f" % ((i + 1,) + tuple(v)) for i, v in enumerate(F)]
    elif calc == "dftbp":
        lines.append("forces              :real:2:3,%d" % n)
        lines += ["  %24.16E  %24.16E  %24.16E" % tuple(v) for v in F]
        lines.append("")
    elif calc == "castep":
        lines.append(" ***************** Forces *****************")
        lines.append(" *  Cartesian components (eV/A)")
        lines.append(" * -------------------------------------- *")
        lines.append(" *            x         y         z       *")
        lines.append(" *                                        *")
        for i, (v, s) in enumerate(zip(F, read_cell.symbols)):
            lines.append(" * %2s  %4d  %18.12f %18.12f %18.12f *" % ((s, i + 1) + tuple(v)))
        lines.append(" *                                        *")
        lines.append(" ******************************************")
    elif calc == "pwmat":
        lines.append("  %d atoms, force (eV/A)" % n)
        lines += ["  %3d  %22.14f  %22.14f  %22.14f" % ((11,) + tuple(-v)) for v in F]
    elif calc == "aims":
        lines.append("  | Number of atoms                   :  %6d" % n)
        lines.append("  | Unit cell:")
        for v in np.array(read_cell.cell):
            lines.append("  |  %16.8f %16.8f %16.8f" % tuple(v))
        lines.append("  Atomic structure:")
        lines.append("  |       Atom                x [A]            y [A]            z [A]")
        for i, (p, sy) in enumerate(zip(read_cell.positions, read_cell.symbols)):
            lines.append("  |  %4d: Species %-2s %16.8f %16.8f %16.8f" % (i + 1, sy, p[0], p[1], p[2]))
        lines.append("  Total atomic forces (unitary forces cleaned) [eV/Ang]:")
        lines += ["  |  %4d  %24.16E  %24.16E  %24.16E" % ((i + 1,) + tuple(v)) for i, v in enumerate(F)]
        lines.append("")
    elif calc == "abacus":
        lines.append(" TOTAL ATOM NUMBER = %d" % n)
        lines.append(" TOTAL-FORCE (eV/Angstrom)")
        lines.append(" ------------------------------------------------------------------")
        for i, (v, sy) in enumerate(zip(F, read_cell.symbols)):
            lines.append("  %s%d  %20.12f  %20.12f  %20.12f" % ((sy, i + 1) + tuple(v)))
        lines.append(" ------------------------------------------------------------------")
    elif calc == "lammps":
        lines += ["ITEM: TIMESTEP", "0", "ITEM: NUMBER OF ATOMS", "%d" % n, "ITEM: BOX BOUNDS xy xz yz pp pp pp", "0 1 0", "0 1 0", "0 1 0",
                  "ITEM: ATOMS id type x y z fx fy fz"]
        for i, (p, v) in enumerate(zip(read_cell.positions, F)):
            lines.append("%d %d %15.8f %15.8f %15.8f %20.12f %20.12f %20.12f" % (i + 1, 1, p[0], p[1], p[2], v[0], v[1], v[2]))
    elif calc == "cp2k":
        lines += [" ATOMIC FORCES in [a.u.]", "", " # Atom   Kind   Element          X              Y              Z"]
        lines += [" %6d %6d %6s  %22.14E %22.14E %22.14E" % ((i + 1, 1, re.sub(r"\d+$", "", sy)) + tuple(v)) for i, (v, sy) in enumerate(zip(F, read_cell.symbols))]
        lines.append(" SUM OF ATOMIC FORCES  0.0 0.0 0.0 0.0")
    elif calc == "fleur":
        lines += ["energy force", "%.10f" % energy, "1 # iteration"]
        lines += ["%22.14E %22.14E %22.14E force" % tuple(v) for v in F]
    elif calc == "crystal":
        lines.append(" CARTESIAN FORCES IN HARTREE/BOHR (ANALYTICAL)")
        lines.append("   ATOM                     X                   Y                   Z")
        lines += ["  %3d  %3d  %22.14E  %22.14E  %22.14E" % ((i + 1, 11) + tuple(v)) for i, v in enumerate(F)]
        lines.append("")
        lines.append(" RESULTANT FORCE   0 0 0")
    else:
        raise ValueError(calc)
    text = "\n".join(lines) + "\n"
    if earlier_blocks and calc in MULTIBLOCK:
        # a job that printed its forces more than once (earlier ionic / SCF steps): phonopy documents that the LAST set counts
        pre = ""
        for k, Fe in enumerate(earlier_blocks):
            tmp = filename + ".earlier%d" % k
            write_force_output(calc, tmp, read_cell, Fe, energy=energy + 1.0 + k, drift=drift)
            pre += open(tmp).read()
            os.remove(tmp)
        text = pre + text
    with open(filename, "w") as w:
        w.write(text)


# readers built on file_IO.iter_collect_forces ("the last set of forces in the file"); siesta's .FA file has one block by construction
MULTIBLOCK = ["qe", "cp2k", "crystal", "pwmat"]


def truncate_in_force_block(calc, filename, midline=False, frac=0.5):
    """A job that crashed while printing its forces: cut the file in the middle of the force block."""
    target = os.path.join(filename, "gradient") if calc == "turbomole" else filename
    text = open(target).read()
    lines = text.split("\n")
    marker = {"vasp": 'name="forces"', "abinit": "cartesian forces", "qe": "Forces acting", "elk": "Forces :", "siesta": None, "dftbp": "forces   ",
              "castep": "Cartesian components", "pwmat": "force (eV/A)", "crystal": "ATOM   ", "turbomole": "cycle =", "aims": "Total atomic forces",
              "abacus": "TOTAL-FORCE", "lammps": "ITEM: ATOMS", "cp2k": "# Atom", "fleur": "1 #"}[calc]
    start = 0
    if marker is not None:
        for i, ln in enumerate(lines):
            if marker in ln:
                start = i  # the LAST force block is the one being printed when the job dies
    cut = start + max(2, (len(lines) - start) // 2)
    with open(target, "w") as w:
        if midline and cut < len(lines) and len(lines[cut].strip()) > 6:
            # killed in the middle of a line: the last line is incomplete and has no newline
            w.write("\n".join(lines[:cut]) + "\n" + lines[cut][: max(3, int(len(lines[cut]) * frac))])
        else:
            w.write("\n".join(lines[:cut]) + "\n")

"""C14 — one spectrum: every access path and output option reports the same phonons.

Deciding method: the access paths (q-point list, band path, stored mesh,
iterated mesh, abandoned-and-restarted mesh iteration, direct dynamical-matrix
access, file writers) run as cooperating tasks over ONE shared Phonopy object
(shared DynamicalMatrix and cached GroupVelocity).  A seeded scheduler decides
which task advances at every step; under the OpenMP build the batched solver
additionally runs on the simulated thread runtime with a seeded schedule.
Oracles: per-result self-consistency (D v = lambda v), pairwise agreement of
tasks at common q-points, agreement of every task with the same task run alone
on a fresh object under the serial build, no later mutation of handed-out
results, and file round trips to the printed precision.
"""

from __future__ import annotations

import copy
import os
import re
import shutil
import tempfile

import numpy as np

from . import core
from .world import World, CRYSTALS

PROP = "C14"
RUN_TIMEOUT = 900.0
SHRINK_BUDGET = 80
RULE = (
    "one evaluation = one scenario: a seeded world, 2..5 access-path tasks with seeded option subsets over one shared Phonopy object, "
    "a seeded task interleaving, a build (OpenMP on the simulated runtime with a seeded thread schedule, or serial); distinct = distinct "
    "(task kinds + options, interleaving order, build, NAC kind); non-trivial = at least two tasks were actually interleaved (some task "
    "was resumed after another task had advanced) or the batched solver ran with more than one simulated thread and context switches"
)
ASSUMPTIONS = [
    "a task performs `run_xxx(); get_xxx_dict()` as one atomic step (the API has one result slot per kind; interleaving inside that pair is the caller's own race, not claimed)",
    "at the zone centre with NAC, results are keyed by approach direction and compared across paths only under the same key",
    "eigenvectors are compared as projectors on (near-)degenerate subspaces, group velocities as sums over those subspaces",
    "yaml round trips are compared at the precision actually printed (read off the file text)",
    "worlds have <= 36 supercell atoms and meshes <= 3x3x3",
]
TASK_KINDS = ["qpoints", "qpoints", "band", "mesh", "itermesh", "meshiter", "direct", "write"]

_E = None


def prepare(tier):
    global _E
    if _E is None:
        from .ext import Ext

        _E = Ext(("sim", "serial"))


def components():
    return {
        "real": ["phonopy python layer (QpointsPhonon, BandStructure, Mesh, IterMesh, GroupVelocity, DynamicalMatrix*) from the working tree",
                 "compiled kernels from the working tree", "numpy/LAPACK (1 thread)", "spglib", "PyYAML, h5py (file round trips)"],
        "simulated": ["task scheduler (who advances next)", "OpenMP runtime under the `sim` build (team size, thread schedule)"],
        "stub": ["nanobind -> binding shim"],
        "reference_model": "the same task run alone on a freshly built object under the serial build",
    }


def n_runs(tier):
    return 1200 if tier == "quick" else 20000


# ------------------------------------------------------------------ generation
def gen_spec(seed, index, tier):
    rng = core.rng_of(seed, "c14")
    w = World.generate(seed, max_atoms=rng.choice([12, 16, 24, 36]))
    if rng.random() < 0.12:
        w.spec["fc_sign"] = -1.0  # imaginary modes: the sign convention of reported frequencies is part of "the same phonons"
    mesh = [rng.randint(1, 3) for _ in range(3)]
    nt = rng.randint(2, 5)
    tasks = []
    for _ in range(nt):
        k = rng.choice(TASK_KINDS)
        t = dict(kind=k, eigvecs=rng.random() < 0.5, gv=rng.random() < 0.35, dm=rng.random() < 0.5, sym=rng.random() < 0.5,
                 conn=rng.random() < 0.3, direction=rng.choice([None, None, [1, 0, 0], [0.3, -0.2, 0.5], [0, 0, 1]]),
                 qsel=[rng.randint(0, 26) for _ in range(rng.randint(1, 6))], extra_q=rng.choice([None, [1, 0, 0], [0, 1, 1], [0.13, 0.27, -0.31], [1.5, 0.5, 0], [0.7, -0.9, 0.2]]),
                 abandon=rng.randint(0, 4), fmt=rng.choice(["yaml", "hdf5"]), what=rng.choice(["qpoints", "band", "mesh"]),
                 through_gamma=rng.random() < 0.3, call=rng.choice(["dm_at_q", "freqs", "freqs_vecs", "gv_at_q", "dm_run"]),
                 segments=rng.choice([1, 1, 2, 2, 3]), join=rng.choice(["gamma", "point", "none"]),
                 tr=rng.random() < 0.75, gc=rng.random() < 0.75, qlayout=rng.choice(["list", "list", "array", "strided", "reversed", "fortran"]))
        if t["kind"] in ("band", "write") and t["conn"] and rng.random() < 0.6:
            t["gv"] = True  # connected bands carry their velocities along: keep that combination frequent
        tasks.append(t)
    order = [rng.randint(0, 99) for _ in range(60)]
    variant = "sim" if rng.random() < 0.55 else "serial"
    sched = None
    if variant == "sim":
        from .check_c13 import gen_schedule

        sched = gen_schedule(rng)
    return dict(seed=seed, world=w.spec, mesh=mesh, tasks=tasks, order=order, variant=variant, schedule=sched, compact=rng.random() < 0.5,
                dense_svecs=rng.random() < 0.7, factor=rng.choice([None, None, None, 521.47083, 3.0]))


# ------------------------------------------------------------------ tasks (generators: one API call / iterator step per resume)
def _eig_from_freq(f, factor):
    f = np.asarray(f, dtype=float) / factor
    return np.sign(f) * f * f


def _is_G(q):
    return all(abs(x - round(x)) < 1e-5 for x in q)


def _qkey(q):
    return tuple(round(float(x), 9) + 0.0 for x in q)


class Ctx:
    def __init__(self, ph, Q, has_nac, workdir):
        self.ph = ph
        self.Q = Q
        self.has_nac = has_nac
        self.factor = ph.unit_conversion_factor
        self.reports = []
        self.workdir = workdir
        self.probes = {}
        self.violations = []

    def report(self, task_id, path, q, freq=None, eig=None, D=None, vecs=None, gv=None, dirkey=None, connected=False):
        r = dict(task=task_id, path=path, q=_qkey(q), dirkey=dirkey, connected=connected)
        if eig is None and freq is not None:
            eig = _eig_from_freq(freq, self.factor)
        r["eig"] = None if eig is None else np.array(eig, dtype=float)
        # keep references (to detect later mutation of handed-out results) and private copies
        r["_refs"] = dict(freq=freq, D=D, vecs=vecs, gv=gv)
        r["D"] = None if D is None else np.array(D)
        r["vecs"] = None if vecs is None else np.array(vecs)
        r["gv"] = None if gv is None else np.array(gv)
        r["freq"] = None if freq is None else np.array(freq)
        if connected and r["eig"] is not None:
            # "with band connection the per-q set of frequencies is only re-ordered": undo the re-ordering (stable sort by
            # eigenvalue) and carry eigenvectors and group velocities along, so that a velocity or eigenvector attached
            # to the wrong band shows up in the ordinary comparisons
            perm = np.argsort(r["eig"], kind="stable")
            r["eig"] = r["eig"][perm]
            if r["vecs"] is not None:
                r["vecs"] = r["vecs"][:, perm]
            if r["gv"] is not None:
                r["gv"] = r["gv"][perm]
            r["_refs"] = dict(freq=None, D=None, vecs=None, gv=None)
            r["connected_canonicalised"] = True
            r["connected"] = False
        self.reports.append(r)


def _dirkey(ctx, q, direction):
    """Approach direction at the zone centre (NAC only): unit Cartesian vector, sign-normalised (d and -d are the same limit)."""
    if not ctx.has_nac:
        return None
    if direction is not None and _is_G(q):
        rec = np.linalg.inv(ctx.ph.primitive.cell)
        d = rec @ np.array(direction, dtype=float)
        d = d / np.linalg.norm(d)
        for x in d:
            if abs(x) > 1e-9:
                if x < 0:
                    d = -d
                break
        return ("dir",) + tuple(np.round(d, 6) + 0.0)
    return None


def _task_qlist(ctx, t):
    qs = [list(ctx.Q[i % len(ctx.Q)]) for i in t["qsel"]]
    if t.get("extra_q") is not None:
        qs.append(list(t["extra_q"]))
    return qs


def task_qpoints(ctx, tid, t):
    ph = ctx.ph
    qs = _task_qlist(ctx, t)
    # the caller's q-points in the memory layouts a caller may have: list, own array, a column slice of a wider table,
    # a reversed view, Fortran order - the phonons must be those of the values, whatever the strides
    lay = t.get("qlayout", "list")
    qarg = qs
    if lay == "array":
        qarg = np.array(qs, dtype="double")
    elif lay == "strided":
        big = np.zeros((len(qs), 5))
        big[:, :3] = qs
        big[:, 3:] = 0.37
        qarg = big[:, :3]
    elif lay == "reversed":
        qarg = np.array(qs[::-1], dtype="double")[::-1]
    elif lay == "fortran":
        qarg = np.asfortranarray(np.array(qs, dtype="double"))
    ph.run_qpoints(qarg, with_eigenvectors=t["eigvecs"], with_group_velocities=t["gv"], with_dynamical_matrices=t["dm"], nac_q_direction=t["direction"])
    d = ph.get_qpoints_dict()
    for i, q in enumerate(qs):
        ctx.report(tid, "qpoints", q, freq=d["frequencies"][i], D=(d["dynamical_matrices"][i] if t["dm"] else None),
                   vecs=(d["eigenvectors"][i] if t["eigvecs"] else None), gv=(d["group_velocities"][i] if t["gv"] else None),
                   dirkey=_dirkey(ctx, q, t["direction"]))
    yield


def _band_path(ctx, t):
    """One to three segments; consecutive segments may be joined at Gamma (approached from different directions), at an
    ordinary point, or not joined at all."""
    qs = _task_qlist(ctx, t)
    a = qs[0]
    b = qs[-1] if len(qs) > 1 else [0.5, 0.5, 0.0]
    if t["through_gamma"]:
        a = [0.0, 0.0, 0.0]
    if np.allclose(a, b):
        b = [0.5, 0.25, 0.0]
    paths = [np.linspace(a, b, 3).tolist()]
    nseg = t.get("segments", 1)
    extra = [[0.5, 0.0, 0.5], [0.0, 0.5, 0.0], [0.25, 0.0, 0.25]]
    for k in range(1, nseg):
        join = t.get("join", "none")
        if join == "gamma":
            start = [0.0, 0.0, 0.0]
            if k == 1:
                paths[0] = np.linspace(b if not np.allclose(b, 0) else [0.5, 0, 0], start, 3).tolist()
        elif join == "point":
            start = paths[-1][-1]
        else:
            start = [0.1 * k, 0.2, 0.05]
        end = extra[(k - 1) % len(extra)]
        if np.allclose(start, end):
            end = [0.5, 0.5, 0.5]
        paths.append(np.linspace(start, end, 3).tolist())
    return paths


def task_band(ctx, tid, t):
    ph = ctx.ph
    path = _band_path(ctx, t)
    ph.run_band_structure(path, with_eigenvectors=t["eigvecs"], with_group_velocities=t["gv"], is_band_connection=t["conn"])
    d = ph.get_band_structure_dict()
    # a NAC band path that is collinear with Gamma uses the path direction at every point: key those separately
    rec = np.linalg.inv(ph.primitive.cell)
    for ip, seg in enumerate(path):
        collinear = ctx.has_nac and np.linalg.norm(np.cross(rec @ np.array(seg[0]), rec @ np.array(seg[-1]))) < 1e-5
        for i, q in enumerate(d["qpoints"][ip]):
            dk = None
            if collinear:
                dseg = np.array(seg[0]) - np.array(seg[-1])
                dk = _dirkey(ctx, q, dseg) if _is_G(q) else ("band-collinear", tid, ip)
            ctx.report(tid, "band", q, freq=d["frequencies"][ip][i], vecs=(d["eigenvectors"][ip][i] if d.get("eigenvectors") is not None else None),
                       gv=(d["group_velocities"][ip][i] if d.get("group_velocities") is not None else None), dirkey=dk, connected=t["conn"])
            if collinear and _is_G(q):
                # the same limit through the dynamical-matrix object directly
                dm = ph.dynamical_matrix
                dm.run(np.array(q, dtype="double"), q_direction=dseg)
                D = dm.dynamical_matrix.copy()
                wv, vv = np.linalg.eigh(D)
                ctx.report(tid, "direct:dm_run_dir", q, D=D, eig=wv, vecs=vv, dirkey=dk)
    yield


def task_mesh(ctx, tid, t):
    ph = ctx.ph
    ph.run_mesh(ctx.mesh, is_mesh_symmetry=t["sym"], with_eigenvectors=t["eigvecs"], with_group_velocities=t["gv"], is_gamma_center=t.get("gc", True),
                is_time_reversal=t.get("tr", True))
    d = ph.get_mesh_dict()
    for i, q in enumerate(d["qpoints"]):
        ctx.report(tid, "mesh", q, freq=d["frequencies"][i], vecs=(d["eigenvectors"][i] if d["eigenvectors"] is not None else None),
                   gv=(d["group_velocities"][i] if d["group_velocities"] is not None else None))
    yield


def task_itermesh(ctx, tid, t):
    ph = ctx.ph
    ph.init_mesh(ctx.mesh, is_mesh_symmetry=t["sym"], with_eigenvectors=t["eigvecs"], is_gamma_center=t.get("gc", True), is_time_reversal=t.get("tr", True), use_iter_mesh=True)
    m = ph.mesh
    qpts = np.array(m.qpoints)
    yield
    # a pass that the caller gives up after k items, then a full pass: the second pass starts at the first q-point again
    k = t.get("abandon", 0)
    if k:
        n = 0
        for _f, _v in m:
            n += 1
            if n >= k:
                break
            yield
        ctx.probes["itermesh_iteration_abandoned"] = ctx.probes.get("itermesh_iteration_abandoned", 0) + 1
    it = iter(m)
    for i in range(len(qpts)):
        try:
            f, v = next(it)
        except StopIteration:
            ctx.violations.append({"class": "iteration-restart", "site": "itermesh", "detail": "pass after an abandoned pass (%d items) yields %d of %d q-points" % (k, i, len(qpts))})
            return
        ctx.report(tid, "itermesh", qpts[i], freq=f, vecs=v)
        yield
    try:
        next(it)
        ctx.violations.append({"class": "iteration-length", "site": "itermesh", "detail": "iterator yields more items than q-points"})
    except StopIteration:
        pass


def task_meshiter(ctx, tid, t):
    """Stored (lazy) mesh used as an iterator: abandoned after k items, then iterated again in full."""
    ph = ctx.ph
    ph.init_mesh(ctx.mesh, is_mesh_symmetry=t["sym"], with_eigenvectors=t["eigvecs"], is_gamma_center=t.get("gc", True), is_time_reversal=t.get("tr", True), use_iter_mesh=False)
    m = ph.mesh
    yield
    k = t["abandon"]
    n = 0
    for f, v in m:
        n += 1
        if n > k:
            break
        yield
    if k and n:
        ctx.probes["mesh_iteration_abandoned"] = ctx.probes.get("mesh_iteration_abandoned", 0) + 1
    qpts = np.array(m.qpoints)
    got = []
    for f, v in m:
        got.append((f, v))
        yield
    if len(got) != len(qpts):
        ctx.violations.append({"class": "iteration-restart", "site": "meshiter", "detail": "second iteration over a stored mesh yields %d of %d q-points (abandoned after %d)" % (len(got), len(qpts), min(k + 1, len(qpts)))})
    for i, (f, v) in enumerate(got[: len(qpts)]):
        ctx.report(tid, "meshiter", qpts[i], freq=f, vecs=v)


def task_direct(ctx, tid, t):
    ph = ctx.ph
    for q in _task_qlist(ctx, t):
        c = t["call"]
        if c == "dm_at_q":
            D = ph.get_dynamical_matrix_at_q(q)
            ctx.report(tid, "direct:dm_at_q", q, D=D, eig=np.linalg.eigvalsh(D))
        elif c == "freqs":
            ctx.report(tid, "direct:freqs", q, freq=ph.get_frequencies(q))
        elif c == "freqs_vecs":
            f, v = ph.get_frequencies_with_eigenvectors(q)
            # together with the matrix the same object hands out for the same q: the eigenvectors must diagonalise it
            D = ph.get_dynamical_matrix_at_q(q)
            ctx.report(tid, "direct:freqs_vecs", q, freq=f, vecs=v, D=D)
        elif c == "gv_at_q":
            ctx.report(tid, "direct:gv_at_q", q, gv=ph.get_group_velocity_at_q(q))
        else:
            dm = ph.dynamical_matrix
            dm.run(q)
            D = dm.dynamical_matrix
            w, v = np.linalg.eigh(D)
            ctx.report(tid, "direct:dm_run", q, D=D, eig=w, vecs=v)
        yield


_NUM = r"[-+]?\d+\.\d+(?:[eE][-+]?\d+)?"


def _printed(text, key):
    """[(value, decimals)] of numbers printed after `key:` in the yaml text (precision read off the file)."""
    out = []
    for m in re.finditer(r"%s:\s+(%s)" % (re.escape(key), _NUM), text):
        s = m.group(1)
        dec = len(s.split(".")[1].split("e")[0].split("E")[0])
        out.append((float(s), dec))
    return out


def task_write(ctx, tid, t):
    import h5py

    ph = ctx.ph
    what = t["what"]
    d0 = os.path.join(ctx.workdir, "t%d" % tid)
    os.makedirs(d0, exist_ok=True)
    if what == "qpoints":
        qs = _task_qlist(ctx, t)
        ph.run_qpoints(qs, with_eigenvectors=t["eigvecs"], with_group_velocities=t["gv"], with_dynamical_matrices=False, nac_q_direction=t["direction"])
        d = ph.get_qpoints_dict()
        freqs = np.array(d["frequencies"])
        gv = np.array(d["group_velocities"]) if t["gv"] else None
        vecs = np.array(d["eigenvectors"]) if t["eigvecs"] else None
        qmem, wmem = np.array(qs, dtype=float), None
        obj = ph.qpoints
        fn = os.path.join(d0, "qpoints." + t["fmt"])
    elif what == "band":
        ph.run_band_structure(_band_path(ctx, dict(t, segments=1)), with_eigenvectors=t["eigvecs"], with_group_velocities=t["gv"], is_band_connection=t["conn"])
        d = ph.get_band_structure_dict()
        freqs = np.array(d["frequencies"][0])
        gv = np.array(d["group_velocities"][0]) if d.get("group_velocities") is not None else None
        vecs = np.array(d["eigenvectors"][0]) if d.get("eigenvectors") is not None else None
        qmem, wmem = np.array(d["qpoints"][0], dtype=float), None
        obj = ph.band_structure
        fn = os.path.join(d0, "band." + t["fmt"])
    else:
        ph.run_mesh(ctx.mesh, is_mesh_symmetry=t["sym"], with_eigenvectors=t["eigvecs"], with_group_velocities=t["gv"], is_gamma_center=t.get("gc", True),
                    is_time_reversal=t.get("tr", True))
        d = ph.get_mesh_dict()
        freqs = np.array(d["frequencies"])
        gv = np.array(d["group_velocities"]) if d["group_velocities"] is not None else None
        vecs = np.array(d["eigenvectors"]) if d["eigenvectors"] is not None else None
        qmem, wmem = np.array(d["qpoints"], dtype=float), np.array(d["weights"])
        obj = ph.mesh
        fn = os.path.join(d0, "mesh." + t["fmt"])
    freqs = freqs.copy()
    vecs = None if vecs is None else vecs.copy()
    yield
    if t["fmt"] == "hdf5":
        obj.write_hdf5(filename=fn)
    else:
        obj.write_yaml(filename=fn)
    yield
    if t["fmt"] == "hdf5":
        with h5py.File(fn, "r") as f:
            got = np.array(f["frequency"][:]).reshape(freqs.shape)
            if not np.array_equal(got, freqs):
                ctx.violations.append({"class": "file-roundtrip", "site": "%s.hdf5:frequency" % what, "detail": float(np.max(np.abs(got - freqs)))})
            if gv is not None and "group_velocity" in f:
                g = np.array(f["group_velocity"][:]).reshape(gv.shape)
                if not np.array_equal(g, gv):
                    ctx.violations.append({"class": "file-roundtrip", "site": "%s.hdf5:group_velocity" % what, "detail": float(np.max(np.abs(g - gv)))})
            if vecs is not None and "eigenvector" in f:
                e = np.array(f["eigenvector"][:]).reshape(vecs.shape)
                if not np.array_equal(e, vecs):
                    ctx.violations.append({"class": "file-roundtrip", "site": "%s.hdf5:eigenvector" % what, "detail": float(np.max(np.abs(e - vecs)))})
                ctx.probes["file_roundtrip:eigenvectors.hdf5"] = 1
            for key in ("qpoint", "path"):
                if key in f and np.array(f[key]).size == qmem.size:
                    qf = np.array(f[key][:]).reshape(qmem.shape)
                    if np.max(np.abs(qf - qmem)) > 1e-12:
                        ctx.violations.append({"class": "file-roundtrip", "site": "%s.hdf5:q-position" % what, "detail": float(np.max(np.abs(qf - qmem)))})
            if wmem is not None and "weight" in f:
                if not np.array_equal(np.array(f["weight"][:]).ravel(), wmem.ravel()):
                    ctx.violations.append({"class": "file-roundtrip", "site": "%s.hdf5:weight" % what, "detail": "weights differ"})
    else:
        text = open(fn).read()
        pf = _printed(text, "frequency")
        flat = freqs.ravel()
        if len(pf) != len(flat):
            ctx.violations.append({"class": "file-roundtrip", "site": "%s.yaml:frequency-count" % what, "detail": "%d printed, %d in memory" % (len(pf), len(flat))})
        else:
            for (val, dec), x in zip(pf, flat):
                if abs(val - x) > 0.5000001 * 10.0 ** (-dec) + 1e-12 * abs(x):
                    ctx.violations.append({"class": "file-roundtrip", "site": "%s.yaml:frequency" % what, "detail": dict(printed=val, memory=float(x), decimals=dec)})
                    break
        if gv is not None:
            vals = [tuple(float(x) for x in m.groups()) for m in re.finditer(r"group_velocity:\s+\[\s*(%s),\s*(%s),\s*(%s)\s*\]" % (_NUM, _NUM, _NUM), text)]
            g = gv.reshape(-1, 3)
            if len(vals) != len(g):
                ctx.violations.append({"class": "file-roundtrip", "site": "%s.yaml:group_velocity-count" % what, "detail": "%d printed, %d in memory" % (len(vals), len(g))})
            elif len(g) and np.max(np.abs(np.array(vals) - g)) > 0.5000001e-7 + 1e-12 * np.max(np.abs(g)):
                ctx.violations.append({"class": "file-roundtrip", "site": "%s.yaml:group_velocity" % what, "detail": float(np.max(np.abs(np.array(vals) - g)))})
        # the whole record structure: q-position, weight, and every eigenvector component (real and imaginary part are printed
        # separately, per band, per atom, per Cartesian direction)
        import yaml

        try:
            doc = yaml.load(text, Loader=getattr(yaml, "CSafeLoader", yaml.SafeLoader))
        except Exception as e:  # noqa: BLE001
            ctx.violations.append({"class": "file-roundtrip", "site": "%s.yaml:not-parseable" % what, "detail": str(e)[:200]})
            doc = None
        if doc is not None and "phonon" in doc:
            recs = doc["phonon"]
            if len(recs) != len(qmem):
                ctx.violations.append({"class": "file-roundtrip", "site": "%s.yaml:record-count" % what, "detail": "%d records, %d q-points in memory" % (len(recs), len(qmem))})
            else:
                qf = np.array([r["q-position"] for r in recs], dtype=float)
                if np.max(np.abs(qf - qmem)) > 0.51e-7:
                    ctx.violations.append({"class": "file-roundtrip", "site": "%s.yaml:q-position" % what, "detail": float(np.max(np.abs(qf - qmem)))})
                if wmem is not None and "weight" in recs[0]:
                    if [int(r["weight"]) for r in recs] != [int(x) for x in wmem]:
                        ctx.violations.append({"class": "file-roundtrip", "site": "%s.yaml:weight" % what, "detail": "weights differ"})
                if vecs is not None and "eigenvector" in recs[0]["band"][0]:
                    worst = 0.0
                    for iq, r in enumerate(recs):
                        for ib, b in enumerate(r["band"]):
                            ev = np.array(b["eigenvector"], dtype=float)  # (natom, 3, 2)
                            z = (ev[..., 0] + 1j * ev[..., 1]).reshape(-1)
                            worst = max(worst, float(np.max(np.abs(z - vecs[iq][:, ib]))))
                    if worst > 1e-13:
                        ctx.violations.append({"class": "file-roundtrip", "site": "%s.yaml:eigenvector" % what, "detail": worst})
                    ctx.probes["file_roundtrip:eigenvectors.yaml"] = 1
    ctx.probes["file_roundtrip:%s.%s" % (what, t["fmt"])] = 1


TASKS = dict(qpoints=task_qpoints, band=task_band, mesh=task_mesh, itermesh=task_itermesh, meshiter=task_meshiter, direct=task_direct, write=task_write)


def run_tasks(ctx, tasks, order, ids=None):
    """Seeded cooperative scheduler.  Returns (number of steps, number of task switches that resumed a task after another had advanced)."""
    gens = {}
    ids = ids if ids is not None else list(range(len(tasks)))
    for tid in ids:
        gens[tid] = TASKS[tasks[tid]["kind"]](ctx, tid, tasks[tid])
    alive = list(ids)
    steps = 0
    resumed_after_other = 0
    last = None
    started = set()
    errors = []
    while alive and steps < 400:
        pick = alive[order[steps % len(order)] % len(alive)]
        if last is not None and pick != last and pick in started:
            resumed_after_other += 1
        started.add(pick)
        last = pick
        try:
            next(gens[pick])
        except StopIteration:
            alive.remove(pick)
        except Exception as e:  # noqa: BLE001
            import traceback

            errors.append((pick, tasks[pick]["kind"], "%s: %s" % (type(e).__name__, str(e)[:160]), traceback.format_exc()[-600:]))
            alive.remove(pick)
        steps += 1
    return steps, resumed_after_other, errors


# ------------------------------------------------------------------ oracles
def clusters(eig, tol):
    idx = np.argsort(eig)
    out = [[idx[0]]]
    for a, b in zip(idx[:-1], idx[1:]):
        if abs(eig[b] - eig[a]) <= tol:
            out[-1].append(b)
        else:
            out.append([b])
    return out


def self_consistency(r, scale):
    bad = []
    tol = 1e-8 * scale
    if r["vecs"] is not None:
        v = r["vecs"]
        if np.max(np.abs(v.conj().T @ v - np.eye(len(v)))) > 1e-8:
            bad.append(("eigenvectors-not-unitary", float(np.max(np.abs(v.conj().T @ v - np.eye(len(v)))))))
        if r["D"] is not None and r["eig"] is not None:
            res = np.max(np.abs(r["D"] @ v - v * r["eig"][None, :]))
            if res > tol:
                bad.append(("D.v!=lambda.v", float(res)))
    if r["D"] is not None:
        h = np.max(np.abs(r["D"] - r["D"].conj().T))
        if h > tol:
            bad.append(("reported-D-not-hermitian", float(h)))
        if r["eig"] is not None:
            ev = np.linalg.eigvalsh(0.5 * (r["D"] + r["D"].conj().T))
            if np.max(np.abs(np.sort(ev) - np.sort(r["eig"]))) > tol:
                bad.append(("eig(D)!=reported-eigenvalues", float(np.max(np.abs(np.sort(ev) - np.sort(r["eig"]))))))
    return bad


def compare_reports(a, b, scale, compare_gv=True):
    """Differences between two reports of the same (q, dirkey): list of (what, size)."""
    bad = []
    tol = 1e-9 * scale
    ea, eb = a["eig"], b["eig"]
    if ea is not None and eb is not None:
        if a["connected"] or b["connected"]:
            ea, eb = np.sort(ea), np.sort(eb)
        if ea.shape != eb.shape or np.max(np.abs(ea - eb)) > tol:
            bad.append(("eigenvalues", float(np.max(np.abs(ea - eb))) if ea.shape == eb.shape else float("inf")))
            return bad
    if a["D"] is not None and b["D"] is not None:
        d = np.max(np.abs(a["D"] - b["D"]))
        if d > tol:
            bad.append(("dynamical_matrix", float(d)))
    ref_eig = eb if eb is not None else ea
    if ref_eig is not None and not (a["connected"] or b["connected"]):
        cl = clusters(ref_eig, 1e-5 * scale)
        if a["vecs"] is not None and b["vecs"] is not None:
            for c in cl:
                Pa = a["vecs"][:, c] @ a["vecs"][:, c].conj().T
                Pb = b["vecs"][:, c] @ b["vecs"][:, c].conj().T
                d = np.max(np.abs(Pa - Pb))
                if d > 1e-5:
                    bad.append(("eigenvector-subspace", float(d)))
                    break
        if compare_gv and a["gv"] is not None and b["gv"] is not None:
            gs = max(1.0, float(np.max(np.abs(b["gv"]))))
            for c in cl:
                d = np.max(np.abs(a["gv"][c].sum(axis=0) - b["gv"][c].sum(axis=0)))
                if d > 1e-4 * gs:
                    bad.append(("group_velocity", float(d)))
                    break
    return bad


def mutated_later(r):
    bad = []
    for k, ref in r["_refs"].items():
        if ref is not None and r[k] is not None:
            if not np.array_equal(np.asarray(ref), r[k]):
                bad.append(k)
    return bad


# ------------------------------------------------------------------ one run
def build_object(E, w, spec, variant):
    E.use(variant)
    if variant == "sim":
        E.sim.configure(spec["schedule"] or dict(team=1, policy="order"))
    kw = {}
    if spec.get("factor") is not None:
        kw["factor"] = spec["factor"]  # a non-default frequency unit: every path must report in it
    return w.build(compact=spec["compact"], store_dense_svecs=spec["dense_svecs"], **kw)


def execute(spec):
    E = _E
    w = World(spec["world"])
    workdir = tempfile.mkdtemp(prefix="c14-", dir=os.environ.get("TMPDIR", "/tmp"))
    try:
        return _execute(E, w, spec, workdir)
    finally:
        shutil.rmtree(workdir, ignore_errors=True)


def _mesh_Q(ph, mesh):
    ph.run_mesh(mesh, is_mesh_symmetry=False, is_gamma_center=True)
    return np.array(ph.get_mesh_dict()["qpoints"])


def _execute(E, w, spec, workdir):
    violations = []
    tasks = spec["tasks"]
    variant = spec["variant"]
    has_nac = bool(w.nac_method)
    # ---- interleaved run on one shared object
    ph = build_object(E, w, spec, variant)
    Q = _mesh_Q(ph, spec["mesh"])
    ctx = Ctx(ph, Q, has_nac, workdir)
    ctx.mesh = spec["mesh"]
    steps, resumed, errors = run_tasks(ctx, tasks, spec["order"])
    sim_stats = E.sims["sim"].stats() if variant == "sim" else None
    scale = 1.0
    for r in ctx.reports:
        if r["eig"] is not None and len(r["eig"]):
            scale = max(scale, float(np.max(np.abs(r["eig"]))))
    probes = dict(ctx.probes)
    for tid, kind, msg, tb in errors:
        exc = msg.split(":")[0]
        probes["task_raised:%s:%s" % (kind, exc)] = probes.get("task_raised:%s:%s" % (kind, exc), 0) + 1
        # an internal error (as opposed to a deliberate refusal) means the access path cannot report these phonons at all
        if exc in ("UnboundLocalError", "NameError", "AttributeError", "TypeError", "IndexError", "KeyError", "ZeroDivisionError"):
            violations.append({"class": "path-crashes", "site": "%s:%s" % (kind, exc), "detail": dict(message=msg, task=tasks[tid], traceback=tb)})
    violations.extend(ctx.violations)

    def V(cls, site, **detail):
        violations.append({"class": cls, "site": site, "detail": detail})

    def desc(r):
        t = tasks[r["task"]]
        opts = [k for k in ("eigvecs", "gv", "dm", "conn", "sym") if t.get(k)]
        return "%s[%s]" % (r["path"], ",".join(opts))

    # A. self-consistency of every report
    for r in ctx.reports:
        for what, size in self_consistency(r, scale):
            opts = "+".join(k for k in ("eigvecs", "gv", "dm") if tasks[r["task"]].get(k))
            V("self-inconsistent", "%s(%s):%s:%s" % (r["path"], opts, what, variant_kind(variant)), size=size, q=r["q"], task=tasks[r["task"]])
    # D. handed-out results must not be mutated by later calls
    for r in ctx.reports:
        for k in mutated_later(r):
            V("result-mutated-later", "%s:%s" % (r["path"], k), q=r["q"])
    # B. pairwise agreement at common (q, dirkey)
    # Group velocities are symmetrised with the primitive cell's point group unless a perturbation direction is given
    # (run_qpoints with nac_q_direction).  Symmetrised and unsymmetrised velocities are different computations and
    # legitimately differ when the force constants / the truncated NAC sum do not have the full point symmetry at that q
    # (supercell shape breaking the point group; q outside the first zone with Gonze-Lee NAC): group velocities are
    # compared across paths only between reports produced in the same mode.
    sym_ok = len(ph.symmetry.pointgroup_operations) == len(ph.primitive_symmetry.pointgroup_operations)
    if not sym_ok:
        probes["supercell_breaks_point_group:gv_cross_comparison_skipped"] = 1
    byq = {}
    for r in ctx.reports:
        byq.setdefault((r["q"], r["dirkey"]), []).append(r)
    pairs = 0
    for key, rs in byq.items():
        base = rs[0]
        for r in rs[1:]:
            if r["task"] == base["task"] and r["path"] == base["path"]:
                continue
            pairs += 1
            def gv_mode(x):
                return "unsymmetrised" if (x["path"] == "qpoints" and tasks[x["task"]].get("direction") is not None) else "symmetrised"

            same_gv_mode = gv_mode(r) == gv_mode(base)
            for what, size in compare_reports(r, base, scale, compare_gv=same_gv_mode):
                V("paths-disagree", "%s~%s:%s" % tuple(sorted([r["path"].split(":")[0], base["path"].split(":")[0]]) + [what]), size=size, q=key[0], a=desc(r), b=desc(base))
    # C. each task alone on a fresh object under the serial build
    ref_fail = 0
    for tid in range(len(tasks)):
        phr = build_object(E, w, spec, "serial")
        cr = Ctx(phr, Q, has_nac, os.path.join(workdir, "ref%d" % tid))
        cr.mesh = spec["mesh"]
        os.makedirs(cr.workdir, exist_ok=True)
        _, _, errs = run_tasks(cr, tasks, [0], ids=[tid])
        mine = [r for r in ctx.reports if r["task"] == tid]
        mine_err = [e for e in errors if e[0] == tid]
        if errs or mine_err:
            if bool(errs) != bool(mine_err):
                V("task-raises-only-when-interleaved" if mine_err else "task-raises-only-alone", tasks[tid]["kind"], interleaved=[e[2] for e in mine_err], alone=[e[2] for e in errs])
            continue
        if len(mine) != len(cr.reports):
            V("isolated-reference-differs", "%s:report-count:%s" % (tasks[tid]["kind"], variant_kind(variant)), interleaved=len(mine), alone=len(cr.reports))
            continue
        for a, b in zip(mine, cr.reports):
            if a["q"] != b["q"]:
                V("isolated-reference-differs", "%s:q-order:%s" % (tasks[tid]["kind"], variant_kind(variant)), a=a["q"], b=b["q"])
                break
            diffs = compare_reports(a, b, scale)
            for what, size in diffs:
                V("isolated-reference-differs", "%s:%s:%s" % (a["path"], what, variant_kind(variant)), size=size, q=a["q"], task=tasks[tid], dirkey=str(a["dirkey"]))
            if diffs:
                ref_fail += 1
                break
    E.use(variant)

    sig = core.digest([[(t["kind"], t["eigvecs"], t["gv"], t["dm"], t["conn"], t["sym"]) for t in tasks], spec["order"][:steps], variant, w.nac_method])
    nontrivial = resumed > 0 or (sim_stats is not None and sim_stats["switches"] > 0 and sim_stats["max_team"] > 1)
    faults = {"task_interleaving_resumptions": resumed}
    if sim_stats:
        faults["preemptive_context_switches"] = sim_stats["switches"]
        faults["openmp_build"] = 1
    else:
        faults["serial_build"] = 1
    log = [(r["task"], r["path"], r["q"], core.digest([r["eig"], r["D"], r["gv"]])) for r in ctx.reports]
    steps_d = {"scheduler_steps": steps, "reports": len(ctx.reports), "cross_path_pairs_compared": pairs, "isolated_reference_runs": len(tasks)}
    if sim_stats:
        steps_d["instrumented_access_events"] = sim_stats["events"]
    probes["dm_class:%s" % type(ph.dynamical_matrix).__name__] = 1
    return {
        "digest": core.digest([log, sorted((v["class"], v["site"]) for v in violations)]),
        "violations": violations,
        "sig": sig,
        "nontrivial": nontrivial,
        "faults": faults,
        "probes": probes,
        "steps": steps_d,
        "sample": {"seed": spec["seed"], "crystal": w.name, "nac": w.nac_method, "variant": variant, "mesh": spec["mesh"],
                   "tasks": [{k: t[k] for k in ("kind", "eigvecs", "gv", "dm", "conn", "sym", "direction")} for t in tasks], "order": spec["order"][:steps]},
    }


def variant_kind(v):
    return "openmp" if v.startswith("sim") else "serial"


# ------------------------------------------------------------------ minimisation
def shrink_candidates(spec):
    tasks = spec["tasks"]
    if len(tasks) > 1:
        for i in range(len(tasks)):
            yield dict(spec, tasks=tasks[:i] + tasks[i + 1:])
    if len(spec["order"]) > 1:
        yield dict(spec, order=[0])
        yield dict(spec, order=spec["order"][: len(spec["order"]) // 2])
    if spec["variant"] == "sim":
        yield dict(spec, variant="serial", schedule=None)
        if spec["schedule"] and spec["schedule"].get("team", 1) > 1:
            yield dict(spec, schedule=dict(team=1, policy="order"))
    for i, t in enumerate(tasks):
        for k in ("eigvecs", "gv", "dm", "conn", "through_gamma"):
            if t.get(k):
                nt = copy.deepcopy(tasks)
                nt[i][k] = False
                yield dict(spec, tasks=nt)
        if len(t["qsel"]) > 1:
            nt = copy.deepcopy(tasks)
            nt[i]["qsel"] = t["qsel"][:1]
            yield dict(spec, tasks=nt)
        if t.get("extra_q") is not None:
            nt = copy.deepcopy(tasks)
            nt[i]["extra_q"] = None
            yield dict(spec, tasks=nt)
        if t.get("direction") is not None:
            nt = copy.deepcopy(tasks)
            nt[i]["direction"] = None
            yield dict(spec, tasks=nt)
    if any(m > 1 for m in spec["mesh"]):
        yield dict(spec, mesh=[1, 1, 1])

"""Stub-fidelity / regression self-test: run the repository's FULL test-suite with the serial extension variant
(built with the binding shim) injected.  Not a property check.  Usage: python tools/full_suite.py [pytest args]"""
import os, subprocess, sys
sys.path.insert(0, os.path.dirname(os.path.dirname(os.path.abspath(__file__))))
from simverif import build
repo = build.repo_root()
so = build.build(("serial",), repo)["serial"]
env = dict(os.environ, PHPY_EXT=so, PYTHONPATH=os.pathsep.join([os.path.join(os.path.dirname(os.path.abspath(__file__)), "inject"), repo]), OPENBLAS_NUM_THREADS="1")
r = subprocess.run([sys.executable, "-m", "pytest", "-q", "-p", "no:cacheprovider", "-x" if "-x" in sys.argv else "-q", "--timeout=900", "--continue-on-collection-errors"] + [a for a in sys.argv[1:] if a != "-x"], cwd=repo, env=env)
sys.exit(r.returncode)

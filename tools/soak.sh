#!/bin/bash
# Soak: run every claimed check's quick tier under many VERIF_SEED values; report anything that is not a clean pass.
# usage: tools/soak.sh <first_seed> <last_seed> [checks...]
a=${1:-1}; b=${2:-10}; shift 2
checks=${@:-C13 C14 C15 C16 C17 C18}
for sd in $(seq $a $b); do
  for p in $checks; do
    out=$(VERIF_SEED=$sd /venv/bin/python -m simverif.check $p --tier quick 2>&1); rc=$?
    line=$(echo "$out" | grep "tier=quick" | tail -1)
    echo "seed=$sd rc=$rc $line"
    if [ $rc -ne 0 ]; then echo "$out" | grep -v "^WARNING\|^KNOWN" | tail -15; fi
  done
done

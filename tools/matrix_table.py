"""Summarise seeded/detection_matrix.log (last entry per id wins) as a markdown table on stdout."""
import json, os, re, sys
log = open("/verif/seeded/detection_matrix.log").read()
blocks = re.split(r"^### ", log, flags=re.M)[1:]
last = {}
for b in blocks:
    lines = b.splitlines()
    last[lines[0].strip()] = lines[1:]
def key(k):
    a, b = k.split("-"); return (a, int(b))
print("| id | breaks | change (needs) | result per seed | first violation reported |")
print("|---|---|---|---|---|")
for k in sorted(last, key=key):
    meta = json.load(open("/verif/seeded/%s/meta.json" % k))
    runs = [l for l in last[k] if re.match(r"^C\d+ seed=", l)]
    res = ", ".join("seed %s: %s" % (re.search(r"seed=(\S+)", l).group(1), {"0": "pass (missed)", "1": "VIOLATION", "2": "harness error"}.get(re.search(r"exit=(\d)", l).group(1), "?")) for l in runs)
    viol = [l.strip() for l in last[k] if l.strip().startswith("class=")]
    first = ""
    if viol:
        m = re.match(r"class=(\S+) site=(.+?) detail=", viol[0])
        first = "`%s` / `%s`" % (m.group(1), m.group(2)) if m else viol[0][:80]
    if meta.get("note_current_tree"):
        first = (first + " - " if first else "") + meta["note_current_tree"]
    print("| %s | %s | %s (%s) | %s | %s |" % (k, meta["breaks_property"], meta["change"].replace("|", "/"), meta["needs_to_manifest"].replace("|", "/"), res, first))

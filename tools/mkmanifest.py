import json
NA = {
 "C01":"pure function (crystal, supercell, options, forces) -> force constants; no schedule, fault, clock or history in it (its kernels run serially; they execute under the C13 bounds monitor during world construction)",
 "C02":"analytic identity between D(q) and a lattice Fourier sum for every input; the only schedule-dependent part (batched OpenMP solver) is decided under C13/C14",
 "C03":"algebraic identities relating D at q, -q, q+G, Rq; no schedule, fault or history can change them",
 "C04":"geometry of integer re-tilings of cells; pure function of inputs",
 "C05":"completeness of a minimum-image search; pure geometry needing an exhaustive image oracle, not a simulator",
 "C06":"Fourier round trip on fixed arrays; pure (the transform kernel's thread dimension is decided under C13)",
 "C07":"symmetrisers as projections; serial kernels, pure algebra over inputs",
 "C08":"analytic limits of the NAC term in (Z*, eps, n, q); pure",
 "C09":"counting identity over (lattice, mesh, shift) through spglib; pure",
 "C10":"closed-form thermodynamics over the (nu, T) plane; pure (its one parallel loop is decided under C13)",
 "C11":"sum rules and C/Python agreement of case-split formulas over frequency fields; pure",
 "C12":"derivative identities checked by differentiating; pure",
 "C19":"the random variates are already an explicit argument (randn or a seeded generator); with them fixed the claim is linear algebra about a covariance map; no schedule, fault or history",
 "C20":"least-squares fits of equations of state; pure function of inputs (and scipy is absent from the pinned environment)",
}
import sys
claimed = json.load(open('/verif/manifest_checks.json'))
pending = {"C14","C15","C16","C17","C18"} - {c["property_id"] for c in claimed}
na = [{"property_id":k,"reason":v} for k,v in sorted(NA.items())]
for p in sorted(pending):
    na.append({"property_id":p,"reason":"simulation target (DESIGN.md), check not built yet at this commit; not claimed until its check exists and passes on the unchanged tree"})
m = {
 "version":1,
 "setup_cmd":"/venv/bin/python -m simverif.build sim serial0 serial sim1",
 "hooks":{"guard":"PHONOPY_VERIF_SIM","enable":"no source hooks are needed: every seam is outside the repository sources (OpenMP runtime ABI, -fsanitize=thread callbacks, binding-library header, malloc macro on the compiler command line, sys.modules, sys.argv, cwd); checks build the extension from /repo's working tree at run time",
          "baseline_off_cmd":"cd /repo && /venv/bin/python -m pytest -ra -q -p no:cacheprovider --timeout=900 --continue-on-collection-errors","source_commits":[],"add_only":True},
 "engines":[{"name":"simverif","path":"/verif/simverif","serves_properties":[c["property_id"] for c in claimed],
   "kind_free_text":"deterministic simulation with fault injection: simulated OpenMP runtime (csim/simgomp.c) with seeded thread schedules at memory-access granularity, seeded operation/fault histories against reference models, fork-per-step process restart over a simulated directory; one VERIF_SEED = one replayable batch"}],
 "checks":claimed,
 "not_applicable":na,
 "notes":"python -m simverif.check <ID> --tier quick|thorough; exit 0 held / 1 VIOLATION / 2 harness error. Known findings: /verif/known_findings.json (never written at run time).",
}
json.dump(m, open('/verif/MANIFEST.json','w'), indent=1)

#!/bin/bash
# Refresh the committed evidence from /verif against /repo itself (quick tier, default seed), regenerate and validate the manifest.
cd /verif || exit 2
/venv/bin/python -m simverif.build sim serial0 serial sim1 >/dev/null || exit 2
for p in C13 C14 C15 C16 C17 C18; do
  /venv/bin/python -m simverif.check $p --tier quick 2>&1 | grep -v "^WARNING" | grep "tier=quick\|VIOLATION\|class=" | cut -c1-300
done
/venv/bin/python tools/mkmanifest.py | tail -1
python3-vt - <<'PY'
import json, jsonschema, glob
jsonschema.validate(json.load(open('/verif/MANIFEST.json')), json.load(open('/root/.vp/MANIFEST.schema.json')))
sch = json.load(open('/root/.vp/EVIDENCE.schema.json'))
for f in sorted(glob.glob('/verif/evidence/C*.json')):
    jsonschema.validate(json.load(open(f)), sch)
    print("valid", f)
print("manifest valid")
PY

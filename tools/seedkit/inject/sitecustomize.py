# Loaded via PYTHONPATH when PHPY_EXT is set: makes a built extension variant importable as phonopy._phonopy
import os, sys
if os.environ.get("PHPY_EXT"):
    try:
        import importlib.machinery, importlib.util
        path = os.environ["PHPY_EXT"]
        loader = importlib.machinery.ExtensionFileLoader("phonopy._phonopy", path)
        spec = importlib.util.spec_from_file_location("phonopy._phonopy", path, loader=loader)
        mod = importlib.util.module_from_spec(spec)
        loader.exec_module(mod)
        import phonopy
        sys.modules["phonopy._phonopy"] = mod
        phonopy._phonopy = mod
    except Exception as e:  # pragma: no cover
        print("extension injection failed:", e, file=sys.stderr)

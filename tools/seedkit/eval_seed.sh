#!/bin/bash
# usage: eval_seed.sh <ID>   -> confirms each seeded change of that property: demo fails with / passes without, baseline passes with
ID=$1; W=/tmp/mut/$ID; cd $W
for k in 1 2 3; do
  D=$W/out/$k
  git checkout -q -- . ; git apply $D/patch.diff || { echo "$ID/$k APPLY-FAILED"; continue; }
  /tmp/exttools/build_ext.sh $W $W/out/build_eval serial >/dev/null 2>&1 || echo "$ID/$k BUILD-FAILED(serial)"
  /tmp/exttools/build_ext.sh $W $W/out/build_eval_omp openmp >/dev/null 2>&1 || echo "$ID/$k BUILD-FAILED(openmp)"
  demo=$D/demo.py
  (cd $W; PHPY_EXT=$W/out/build_eval/_phonopy.so PYTHONPATH=/tmp/exttools/inject:$W REPO=$W timeout 900 /venv/bin/python $demo > $D/eval_with.log 2>&1); with=$?
  VERIF_REPO=$W /venv/bin/python /tmp/exttools/baseline_check.py > $D/eval_baseline.log 2>&1; base=$?
  git checkout -q -- .
  /tmp/exttools/build_ext.sh $W $W/out/build_eval serial >/dev/null 2>&1
  (cd $W; PHPY_EXT=$W/out/build_eval/_phonopy.so PYTHONPATH=/tmp/exttools/inject:$W REPO=$W timeout 900 /venv/bin/python $demo > $D/eval_without.log 2>&1); without=$?
  echo "$ID/$k demo_with_change_exit=$with demo_clean_exit=$without baseline_rc=$base $(tail -1 $D/eval_baseline.log | grep -o 'missing=[0-9]*')"
done
rm -rf $W/out/build_eval $W/out/build_eval_omp

#!/bin/bash
# Build phonopy's compiled extension from a source tree WITHOUT nanobind/scikit-build (neither is installed here).
# usage: build_ext.sh <repo_dir> <out_dir> [serial|openmp]
#   serial : gcc -O2, OpenMP not compiled in            -> <out_dir>/_phonopy.so
#   openmp : gcc -O2 -fopenmp, linked with real libgomp -> <out_dir>/_phonopy.so   (honours OMP_NUM_THREADS)
# Then run python with:  PHPY_EXT=<out_dir>/_phonopy.so PYTHONPATH=/tmp/exttools/inject:<repo_dir> /venv/bin/python ...
set -e
repo=$1; out=$2; mode=${3:-serial}
mkdir -p $out
flags="-O2 -fPIC -DTHM_EPSILON=1e-10 -w"; ld=""
if [ "$mode" = "openmp" ]; then flags="$flags -fopenmp"; ld="-fopenmp"; fi
inc=$(/venv/bin/python -c "import sysconfig;print(sysconfig.get_paths()['include'])")
for f in phonopy dynmat derivative_dynmat rgrid tetrahedron_method; do gcc -std=gnu11 $flags -I $repo/c -c $repo/c/$f.c -o $out/$f.o; done
g++ -std=c++17 $flags -I /tmp/exttools -I $inc -I $repo/c -c $repo/c/_phonopy.cpp -o $out/glue.o
g++ -shared -o $out/_phonopy.so $out/*.o $ld -lm
echo built $out/_phonopy.so

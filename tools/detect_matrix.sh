#!/bin/bash
# Run every seeded change against the check of the property it breaks (scratch worktree + VERIF_REPO, /repo untouched).
# usage: tools/detect_matrix.sh [seeds, default 0,1] [ids...]   -> appends to seeded/detection_matrix.log
# A seeded change whose original patch no longer applies because a later `fix:` commit rewrote the same lines carries a
# patch_rebased_<commit>.diff that re-introduces the same change on the current tree; that one is applied then.
seeds=${1:-0,1}; shift
ids=${@:-$(ls /verif/seeded | grep '^C[0-9]*-[0-9]*$' | sort -V)}
out=/verif/seeded/detection_matrix.log
for r in $ids; do
  p=${r%-*}
  patch=/verif/seeded/$r/patch.diff
  if ! git -C /repo apply --check $patch 2>/dev/null; then
    alt=$(ls /verif/seeded/$r/patch_rebased_*.diff 2>/dev/null | tail -1)
    [ -n "$alt" ] && patch=$alt
  fi
  echo "### $r" >> $out
  echo "patch=$(basename $patch) repo=$(git -C /repo log --format=%h -1) verif=$(git -C /verif log --format=%h -1)" >> $out
  /venv/bin/python /verif/tools/try_patch.py $patch $p --seeds $seeds 2>&1 | grep -v "^WARN" | grep "^C1\|class=\|DETECTED\|MISSED\|PATCH" | cut -c1-300 >> $out
done
echo "finished $(date -u +%FT%TZ)" >> $out

#!/bin/bash
# Run every seeded change against the check of the property it breaks (scratch worktree + VERIF_REPO, /repo untouched).
# usage: tools/detect_matrix.sh [seeds, default 0,1] [ids...]   -> appends to seeded/detection_matrix.log
seeds=${1:-0,1}; shift
ids=${@:-$(ls /verif/seeded | grep '^C[0-9]*-[0-9]*$' | sort -V)}
out=/verif/seeded/detection_matrix.log
for r in $ids; do
  p=${r%-*}
  echo "### $r" >> $out
  /venv/bin/python /verif/tools/try_patch.py /verif/seeded/$r/patch.diff $p --seeds $seeds 2>&1 | grep -v "^WARN" | grep "^C1\|class=\|DETECTED\|MISSED\|PATCH" | cut -c1-300 >> $out
done
echo "finished $(date -u +%FT%TZ)" >> $out

"""Run checks against a seeded change without touching /repo: scratch worktree of /repo HEAD + patch, VERIF_REPO=<worktree>.
usage: try_patch.py <patch.diff> <ID> [<ID> ...] [--runs N] [--seeds 0,1,2] [--tier quick]
Prints, per check and seed, exit code and the VIOLATION lines.  The worktree is removed afterwards."""
import os, subprocess, sys, tempfile, shutil
args = sys.argv[1:]
patch = os.path.abspath(args[0]); ids = [a for a in args[1:] if a.startswith("C") and a[1:].isdigit()]
def opt(name, default):
    for i, a in enumerate(args):
        if a == name: return args[i + 1]
    return default
runs = opt("--runs", None); seeds = opt("--seeds", "0").split(","); tier = opt("--tier", "quick")
# run from a private snapshot of the machinery so that edits made to /verif while a long matrix runs do not leak into it
snap = tempfile.mkdtemp(prefix="vsnap-", dir="/tmp")
for d in ("simverif", "csim", "tools"):
    shutil.copytree(os.path.join("/verif", d), os.path.join(snap, d), ignore=shutil.ignore_patterns("__pycache__"))
shutil.copy("/verif/known_findings.json", snap)
wt = tempfile.mkdtemp(prefix="wt-", dir="/tmp"); os.rmdir(wt)
subprocess.run(["git", "-C", "/repo", "worktree", "add", "-q", "--detach", wt, "HEAD"], check=True)
try:
    r = subprocess.run(["git", "-C", wt, "apply", patch], capture_output=True, text=True)
    if r.returncode != 0:
        print("PATCH DOES NOT APPLY:", r.stderr[:500]); sys.exit(3)
    detected = False
    for pid in ids:
        for sd in seeds:
            cmd = [sys.executable, "-m", "simverif.check", pid, "--tier", tier] + (["--runs", runs] if runs else [])
            env = dict(os.environ, VERIF_REPO=wt, VERIF_SEED=sd)
            env.pop("SIMVERIF_PINNED", None)
            env["VERIF_NO_EVIDENCE"] = "1"
            r = subprocess.run(cmd, cwd=snap, env=env, capture_output=True, text=True)
            lines = [l for l in r.stdout.splitlines() if l.startswith("VIOLATION") or l.startswith("  class=")]
            print("%s seed=%s exit=%d %s" % (pid, sd, r.returncode, (r.stdout.strip().splitlines() or [""])[-1][:160]))
            for l in lines[:8]: print("   ", l[:300])
            if r.returncode == 2: print(r.stderr[-1500:])
            if r.returncode == 1: detected = True
    print("DETECTED" if detected else "MISSED")
finally:
    subprocess.run(["git", "-C", "/repo", "worktree", "remove", "--force", wt])
    shutil.rmtree(wt, ignore_errors=True)
    shutil.rmtree(snap, ignore_errors=True)

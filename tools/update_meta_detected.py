"""Fill meta.json "detected_by" of every seeded change from seeded/detection_matrix.log (last entry per id wins)."""
import json, re
log = open("/verif/seeded/detection_matrix.log").read()
last = {}
for b in re.split(r"^### ", log, flags=re.M)[1:]:
    lines = b.splitlines()
    last[lines[0].strip()] = lines[1:]
for k, lines in last.items():
    p = "/verif/seeded/%s/meta.json" % k
    meta = json.load(open(p))
    runs = [l for l in lines if re.match(r"^C\d+ seed=", l)]
    viol = [l.strip() for l in lines if l.strip().startswith("class=")]
    verdict = [l for l in lines if l in ("DETECTED", "MISSED")]
    firsts = []
    for v in viol[:3]:
        m = re.match(r"class=(\S+) site=(.+?) detail=", v)
        if m:
            firsts.append("%s / %s" % (m.group(1), m.group(2)))
    meta["detected_by"] = {
        "check": meta["breaks_property"], "verdict": (verdict[-1] if verdict else "not run"),
        "seeds": [re.search(r"seed=(\S+)", l).group(1) + (": VIOLATION" if "exit=1" in l else ": pass") for l in runs],
        "first_violations": firsts, "see": "DESIGN.md section 14",
    }
    json.dump(meta, open(p, "w"), indent=1)
print("updated", len(last))

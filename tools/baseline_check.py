"""Run the repository's pinned baseline (guard off: there are no hooks) and check that every stable_pass test still passes."""
import json, subprocess, sys, tempfile, os, xml.etree.ElementTree as ET
repo = os.environ.get("VERIF_REPO", "/repo")
base = json.load(open("/root/.vp/BASELINE.json"))
with tempfile.TemporaryDirectory() as d:
    x = os.path.join(d, "j.xml")
    subprocess.run([sys.executable, "-m", "pytest", "-ra", "-q", "-p", "no:cacheprovider", "--timeout=900", "--continue-on-collection-errors", "--junitxml=" + x],
                   cwd=repo, stdout=subprocess.DEVNULL, stderr=subprocess.DEVNULL)
    passed = set()
    for tc in ET.parse(x).getroot().iter("testcase"):
        if not any(c.tag in ("failure", "error", "skipped") for c in tc):
            passed.add(tc.get("classname") + "::" + tc.get("name"))
missing = [t for t in base["stable_pass"] if t not in passed]
print("stable_pass=%d passed_now=%d missing=%d" % (len(base["stable_pass"]), len(passed), len(missing)))
for m in missing:
    print("MISSING", m)
sys.exit(1 if missing else 0)
